"""R9 - reader for the subset of the DOT language that graphviz.Digraph.source emits:
nested `subgraph` blocks, graph attribute statements, node statements with attribute lists,
edge statements `a:"p" -> b:"q" [..]`, default-attribute statements (`node [..]`, `edge [..]`,
`graph [..]`: they apply to what is created after them in that graph and its subgraphs), quoted
strings and HTML strings `<...>` (balanced)."""

from __future__ import annotations

import re
from dataclasses import dataclass, field


class DotError(Exception):
    pass


@dataclass
class Graph:
    name: str | None
    attrs: dict = field(default_factory=dict)
    nodes: list = field(default_factory=list)  # (id, attrs)
    edges: list = field(default_factory=list)  # (src, srcport, dst, dstport, attrs)
    subgraphs: list = field(default_factory=list)


def tokenize(src: str):
    i, n = 0, len(src)
    toks = []
    while i < n:
        c = src[i]
        if c.isspace() or c == ";" or c == ",":
            i += 1
        elif c == '"':
            j = i + 1
            buf = []
            while j < n and src[j] != '"':
                if src[j] == "\\" and j + 1 < n:
                    buf.append(src[j + 1])
                    j += 2
                else:
                    buf.append(src[j])
                    j += 1
            if j >= n:
                raise DotError("unterminated string")
            toks.append(("str", "".join(buf)))
            i = j + 1
        elif c == "<":
            depth, j = 0, i
            while j < n:
                if src[j] == "<":
                    depth += 1
                elif src[j] == ">":
                    depth -= 1
                    if depth == 0:
                        break
                j += 1
            if j >= n:
                raise DotError("unbalanced HTML string")
            toks.append(("html", src[i + 1 : j]))
            i = j + 1
        elif c in "{}[]=:":
            toks.append((c, c))
            i += 1
        elif c == "-" and src[i : i + 2] == "->":
            toks.append(("->", "->"))
            i += 2
        else:
            j = i
            while j < n and not src[j].isspace() and src[j] not in '{}[]=:;,"<' and src[j : j + 2] != "->":
                j += 1
            if j == i:
                raise DotError(f"unexpected character {c!r}")
            toks.append(("id", src[i:j]))
            i = j
    return toks


def parse(src: str) -> Graph:
    toks = tokenize(src)
    pos = 0

    def peek(k=0):
        return toks[pos + k] if pos + k < len(toks) else ("eof", None)

    def take(kind=None):
        nonlocal pos
        t = peek()
        if kind and t[0] != kind:
            raise DotError(f"expected {kind}, got {t}")
        pos += 1
        return t

    def attr_list():
        take("[")
        attrs = {}
        while peek()[0] != "]":
            k = take()[1]
            take("=")
            attrs[k] = take()
        take("]")
        return attrs

    def endpoint():
        node = take()[1]
        port = None
        if peek()[0] == ":":
            take(":")
            port = take()[1]
        return node, port

    def block(name, inherited=None):
        g = Graph(name)
        defaults = {k: dict(v) for k, v in (inherited or {"node": {}, "edge": {}, "graph": {}}).items()}
        take("{")
        while True:
            t = peek()
            if t[0] == "}":
                take("}")
                return g
            if t[0] == "eof":
                raise DotError("unexpected end of input")
            if t == ("id", "subgraph"):
                take()
                nm = take()[1] if peek()[0] != "{" else None
                g.subgraphs.append(block(nm, defaults))
                continue
            if t[0] == "id" and t[1].lower() in ("node", "edge", "graph") and peek(1)[0] == "[":
                # keyword (unquoted): default attributes, not a node called "edge"
                take()
                upd = attr_list()
                if t[1].lower() == "graph":
                    g.attrs.update(upd)
                defaults[t[1].lower()].update(upd)
                continue
            if t[0] not in ("id", "str"):
                raise DotError(f"unexpected token {t}")
            if peek(1)[0] == "=":
                k = take()[1]
                take("=")
                g.attrs[k] = take()
                continue
            a = endpoint()
            if peek()[0] == "->":
                take("->")
                b = endpoint()
                attrs = attr_list() if peek()[0] == "[" else {}
                g.edges.append((a[0], a[1], b[0], b[1], {**defaults["edge"], **attrs}))
            else:
                attrs = attr_list() if peek()[0] == "[" else {}
                g.nodes.append((a[0], {**defaults["node"], **attrs}))

    first = take()
    if first[1] not in ("digraph", "graph"):
        raise DotError("not a graph")
    name = take()[1] if peek()[0] != "{" else None
    g = block(name)
    if peek()[0] != "eof":
        raise DotError("trailing input")
    return g


_PORT = re.compile(r'PORT="((?:in|out)\.(-?\w+))"')
_BOLD = re.compile(r"<B>(.*?)</B>", re.S)


def label_info(label_html: str):
    """(bold display text, [in port ids], [out port ids]) of a node label."""
    m = _BOLD.search(label_html)
    name = m.group(1) if m else None
    ins, outs = [], []
    for full, off in _PORT.findall(label_html):
        (ins if full.startswith("in.") else outs).append(off)
    return name, ins, outs


def all_graphs(g: Graph):
    yield g
    for s in g.subgraphs:
        yield from all_graphs(s)
