"""R2 (part 2) - reference validator: the rule list of DESIGN.md Appendix A, evaluated on the
serialized document alone.  Each rule id cites the hugr-core check it was transcribed from
(hugr-core/src/hugr/validate.rs, ops/validate.rs, ops/tag.rs, ops/constant.rs, ops/dataflow.rs,
extension/resolution/ops.rs) or the section of specification/hugr.md.

validate(doc) -> list[(rule_id, message)]; a document is accepted iff the list is empty."""

from __future__ import annotations

from . import hugrjson as H
from .hugrjson import A, C, tok
from .values import Inhabit, value_type

MODULE_CHILDREN = {"FuncDefn", "FuncDecl", "Const", "AliasDecl", "AliasDefn"}
DATAFLOW_CHILDREN = {"Input", "Output", "DFG", "CFG", "Conditional", "TailLoop", "Call", "LoadConstant", "LoadFunction",
                     "CallIndirect", "Tag", "Extension", "Const", "FuncDefn", "AliasDecl", "AliasDefn"}
CFG_CHILDREN = {"DataflowBlock", "ExitBlock", "Const", "FuncDefn", "AliasDecl", "AliasDefn"}


def allowed_children(op):
    if op == "Module":
        return MODULE_CHILDREN
    if op in H.DATAFLOW_PARENTS:
        return DATAFLOW_CHILDREN
    if op == "CFG":
        return CFG_CHILDREN
    if op == "Conditional":
        return {"Case"}
    return set()


def rows_eq(a, b):
    return len(a) == len(b) and all(tok(x) == tok(y) for x, y in zip(a, b))


def kind_eq(a, b):
    if a is None or b is None or a[0] != b[0]:
        return False
    if a[0] in ("order", "cf"):
        return True
    return tok(a[1]) == tok(b[1])


def validate(doc, embedded=False) -> list[tuple[str, str]]:
    d, errs = H.read(doc)
    if d is None:
        return errs
    errs = list(errs)
    nodes, L, parent, children = d.nodes, d.layouts, d.parent, d.children
    n = len(nodes)

    def err(rule, msg):
        errs.append((rule, msg))

    # ---------------- V03 / V04 / V11: edges attach to ports the ops have, with equal kinds
    out_links = [dict() for _ in range(n)]  # off -> [(dst, do)]
    in_links = [dict() for _ in range(n)]
    for s, so, t, to, sk, tk in d.edges:
        if sk is None:
            err("V03", f"edge {s}:{so}->{t}:{to}: {nodes[s]['op']} has no output port {so} (port count {L[s].n_out})")
        if tk is None:
            err("V03", f"edge {s}:{so}->{t}:{to}: {nodes[t]['op']} has no input port {to} (port count {L[t].n_in})")
        if s == 0 or t == 0:
            err("V04", f"edge {s}:{so}->{t}:{to} attaches to the root")
        if sk is not None and tk is not None and not kind_eq(sk, tk):
            err("V11", f"edge {s}:{so}->{t}:{to}: source kind {sk[0]} {sk[1:] and sk[1]} != target kind {tk[0]} {tk[1:] and tk[1]}")
        out_links[s].setdefault(so, []).append((t, to))
        in_links[t].setdefault(to, []).append((s, so))
    if any(r in ("V03",) for r, _ in errs):
        return errs

    # ---------------- V05..V10: hierarchy
    for i, nd in enumerate(nodes):
        op = nd["op"]
        kids = children[i]
        if i != 0:
            pop = nodes[parent[i]]["op"]
            if op not in allowed_children(pop):
                err("V05", f"node {i} ({op}) is not a permitted child of node {parent[i]} ({pop})")
        allow = allowed_children(op)
        if kids and not allow:
            err("V06", f"node {i} ({op}) is not a container but has children {kids}")
            continue
        if not kids:
            if op in H.DATAFLOW_PARENTS or op in ("CFG", "Conditional"):
                err("V06", f"container node {i} ({op}) has no children")
            continue
        kops = [nodes[k]["op"] for k in kids]
        if op in H.DATAFLOW_PARENTS:
            if kops[0] != "Input":
                err("V07", f"first child of node {i} ({op}) is {kops[0]}, must be Input")
            if len(kops) < 2 or kops[1] != "Output":
                err("V07", f"second child of node {i} ({op}) is {kops[1] if len(kops) > 1 else None}, must be Output")
            for pos, ko in enumerate(kops[2:], 2):
                if ko in ("Input", "Output"):
                    err("V07", f"node {i} ({op}) has a further {ko} child at position {pos}")
            inner = L[i].inner
            if kops[0] == "Input" and not rows_eq(nodes[kids[0]]["types"], inner[0]):
                err("V07", f"Input row of node {i} ({op}) is {nodes[kids[0]]['types']}, container's inner signature has {inner[0]}")
            if len(kops) > 1 and kops[1] == "Output" and not rows_eq(nodes[kids[1]]["types"], inner[1]):
                err("V07", f"Output row of node {i} ({op}) is {nodes[kids[1]]['types']}, container's inner signature has {inner[1]}")
        elif op == "CFG":
            if kops[0] != "DataflowBlock":
                err("V08", f"first child of CFG {i} is {kops[0]}, must be the entry DataflowBlock")
            elif not rows_eq(nodes[kids[0]]["inputs"], nd["signature"]["input"]):
                err("V08", f"entry block inputs {nodes[kids[0]]['inputs']} differ from CFG inputs {nd['signature']['input']}")
            if len(kops) < 2 or kops[1] != "ExitBlock":
                err("V08", f"second child of CFG {i} is {kops[1] if len(kops) > 1 else None}, must be the ExitBlock")
            elif not rows_eq(nodes[kids[1]]["cfg_outputs"], nd["signature"]["output"]):
                err("V08", f"exit block row {nodes[kids[1]]['cfg_outputs']} differs from CFG outputs {nd['signature']['output']}")
            for pos, ko in enumerate(kops[2:], 2):
                if ko == "ExitBlock":
                    err("V08", f"CFG {i} has a further ExitBlock at position {pos}")
            # V10 control-flow edges between the children
            for k in kids:
                if nodes[k]["op"] != "DataflowBlock":
                    continue
                for off, tgts in out_links[k].items():
                    if off >= len(nodes[k]["sum_rows"]):
                        continue
                    for t, _to in tgts:
                        if parent[t] != i:
                            continue
                        row = H.successor_row(nodes[k], off)
                        tin = nodes[t]["inputs"] if nodes[t]["op"] == "DataflowBlock" else nodes[t].get("cfg_outputs", [])
                        if not rows_eq(row, tin):
                            err("V10", f"control edge {k}:{off}->{t} carries {row} but the target expects {tin}")
        elif op == "Conditional":
            if len(kids) != len(nd["sum_rows"]):
                err("V09", f"Conditional {i} has {len(kids)} cases for {len(nd['sum_rows'])} variants")
            else:
                for ci, k in enumerate(kids):
                    if nodes[k]["op"] != "Case":
                        continue
                    sig = nodes[k]["signature"]
                    exp_in = [*nd["sum_rows"][ci], *nd["other_inputs"]]
                    if not rows_eq(sig["input"], exp_in) or not rows_eq(sig["output"], nd["outputs"]):
                        err("V09", f"case {ci} of Conditional {i} has signature {sig['input']} -> {sig['output']}, expected {exp_in} -> {nd['outputs']}")

    # ---------------- V12 / V13: connectedness
    for i in range(1, n):
        lay = L[i]
        op = nodes[i]["op"]
        if op != "Case":
            n_req = len(lay.vin) + (1 if lay.sin else 0)
            for off in range(n_req):
                k = len(in_links[i].get(off, []))
                if k != 1:
                    err("V12", f"input port {i}:{off} of {op} has {k} edges, needs exactly one")
        for off, t in enumerate(lay.vout):
            k = len(out_links[i].get(off, []))
            if H.bound(t) == A and k != 1:
                err("V13", f"linear output {i}:{off} of {op} has {k} edges, needs exactly one")
        for off in range(lay.cfout):
            k = len(out_links[i].get(off, []))
            if k != 1:
                err("V13", f"control-flow output {i}:{off} has {k} edges, needs exactly one")

    # ---------------- V14: dataflow sibling graphs are acyclic
    for i, nd in enumerate(nodes):
        if nd["op"] not in H.DATAFLOW_PARENTS or not children[i]:
            continue
        kids = set(children[i])
        indeg = {k: 0 for k in kids}
        succ = {k: [] for k in kids}
        for k in kids:
            for _off, tgts in out_links[k].items():
                for t, _ in tgts:
                    if t in kids:
                        succ[k].append(t)
                        indeg[t] += 1
        stack = [k for k in kids if indeg[k] == 0]
        seen = 0
        while stack:
            k = stack.pop()
            seen += 1
            for t in succ[k]:
                indeg[t] -= 1
                if indeg[t] == 0:
                    stack.append(t)
        if seen != len(kids):
            err("V14", f"children of node {i} ({nd['op']}) do not form a DAG")

    # ---------------- V15..V19: non-local edges
    dom_cache = {}

    def dominators(cfg):
        if cfg in dom_cache:
            return dom_cache[cfg]
        blocks = [k for k in children[cfg] if nodes[k]["op"] in ("DataflowBlock", "ExitBlock")]
        entry = children[cfg][0]
        preds = {b: set() for b in blocks}
        for b in blocks:
            for _off, tgts in out_links[b].items():
                for t, _ in tgts:
                    if t in preds:
                        preds[t].add(b)
        # reachable set
        reach, todo = {entry}, [entry]
        while todo:
            b = todo.pop()
            for _off, tgts in out_links[b].items():
                for t, _ in tgts:
                    if t in preds and t not in reach:
                        reach.add(t)
                        todo.append(t)
        dom = {b: set(reach) for b in reach}
        dom[entry] = {entry}
        changed = True
        while changed:
            changed = False
            for b in reach:
                if b == entry:
                    continue
                ps = [dom[p] for p in preds[b] if p in reach]
                new = (set.intersection(*ps) if ps else set()) | {b}
                if new != dom[b]:
                    dom[b] = new
                    changed = True
        dom_cache[cfg] = dom
        return dom

    for s, so, t, to, sk, tk in d.edges:
        if s == 0 or t == 0 or parent[s] == parent[t] or sk is None:
            continue
        if sk[0] in ("order", "cf"):
            err("V19", f"{sk[0]} edge {s}->{t} joins nodes with different parents")
            continue
        is_static = sk[0] in ("const", "function")
        if not is_static and H.bound(sk[1]) != C:
            err("V15", f"non-local edge {s}:{so}->{t}:{to} carries the non-copyable type {sk[1]}")
            continue
        fp = parent[s]
        fpp = parent[fp] if fp is not None else None
        entered_func = None
        anc = parent[t]
        found = False
        while anc is not None:
            ap = parent[anc]
            if ap is None:
                break  # reached the root
            if not is_static and nodes[anc]["op"] == "FuncDefn" and entered_func is None:
                entered_func = anc
            if ap == fp:
                found = True
                if entered_func is not None:
                    err("V18", f"value edge {s}:{so}->{t}:{to} enters the function body of node {entered_func}")
                elif not is_static:
                    oo = L[s].order_off("out")
                    oi = L[anc].order_off("in")
                    if oo is None or not any(tt == anc and (oi is None or tto == oi) for tt, tto in out_links[s].get(oo, [])):
                        err("V16", f"value edge {s}:{so}->{t}:{to} enters node {anc} without a state-order edge {s}->{anc}")
                break
            if fpp is not None and ap == fpp and not is_static:
                found = True
                if nodes[ap]["op"] != "CFG":
                    err("V17", f"edge {s}:{so}->{t}:{to}: common ancestor {ap} is {nodes[ap]['op']}, not a CFG")
                elif entered_func is not None:
                    err("V18", f"value edge {s}:{so}->{t}:{to} enters the function body of node {entered_func}")
                else:
                    dom = dominators(ap)
                    if fp not in dom.get(anc, set()):
                        err("V17", f"edge {s}:{so}->{t}:{to}: block {fp} does not dominate block {anc}")
                break
            anc = ap
        if not found:
            err("V19", f"edge {s}:{so}->{t}:{to}: source has no ancestor-sibling / dominator relation to the target")

    # ---------------- V20..V24: per-node content
    def enclosing_params(i):
        j = i
        while j is not None:
            if nodes[j]["op"] == "FuncDefn" and j != i:
                return nodes[j]["signature"]["params"]
            j = parent[j]
        return []

    for i, nd in enumerate(nodes):
        op = nd["op"]
        lay = L[i]
        if op == "Const":
            try:
                value_type(nd["v"])
            except Inhabit as e:
                err("V20", f"Const {i}: {e}")
            for sub in _function_values(nd["v"]):
                if sub["nodes"][0]["op"] not in ("DFG", "FuncDefn", "TailLoop", "Case", "DataflowBlock"):
                    err("V20", f"Const {i}: function value rooted at {sub['nodes'][0]['op']}")
                for r, m in validate(sub, embedded=True):
                    err("V20", f"Const {i}: embedded function body invalid: {r} {m}")
            terrs = []
            if lay.sout and lay.sout[1].get("t") != "invalid":
                H.check_vars(lay.sout[1], [], terrs)
            for m in terrs:
                err("V21", f"Const {i}: {m}")
        params = nd["signature"]["params"] if op == "FuncDefn" else enclosing_params(i)
        terrs, oerrs = [], []
        for t in [*lay.vin, *lay.vout]:
            H.check_vars(t, params if op != "FuncDefn" else enclosing_params(i), terrs, False)
            H.opaque_type_errors(t, oerrs)
        if lay.inner and op == "FuncDefn":
            for t in [*lay.inner[0], *lay.inner[1]]:
                H.check_vars(t, nd["signature"]["params"], terrs, True)
        for m in terrs:
            err("V21", f"node {i} ({op}): {m}")
        for m in oerrs:
            err("V24", f"node {i} ({op}): {m}")
        if op in ("Call", "LoadFunction"):
            ps, body = nd["func_sig"]["params"], nd["func_sig"]["body"]
            args = nd["type_args"]
            if len(args) != len(ps) or not all(H.arg_fits(a, p) for a, p in zip(args, ps)):
                err("V22", f"{op} {i}: type args {args} do not fit params {ps}")
            else:
                try:
                    inst = H.subst_sig(body, args)
                    if tok(inst) != tok(H.fn_type(nd["instantiation"])):
                        err("V22", f"{op} {i}: instantiation {nd['instantiation']} is not func_sig applied to the type args ({inst})")
                except (H.SubstError, IndexError, KeyError) as e:
                    err("V22", f"{op} {i}: cannot instantiate: {e}")
        if op == "Extension":
            ext = H.std_extensions().get(nd["extension"])
            if ext is None or nd["name"] not in ext["operations"]:
                err("V23", f"extension op {nd['extension']}.{nd['name']} at node {i} is not resolvable against the bundled standard extensions")
            else:
                od = ext["operations"][nd["name"]]
                if od.get("signature"):
                    ps, body = od["signature"]["params"], od["signature"]["body"]
                    args = nd.get("args", [])
                    if len(args) != len(ps) or not all(H.arg_fits(a, p) for a, p in zip(args, ps)):
                        err("V23", f"extension op {nd['name']} at node {i}: args {args} do not fit params {ps}")
                    else:
                        try:
                            inst = H.subst_sig(body, args)
                            inst["runtime_reqs"] = sorted(set(inst.get("runtime_reqs", [])) | {nd["extension"]})
                            got = H.fn_type(nd["signature"])
                            if tok({**inst}) != tok({**got, "runtime_reqs": sorted(set(got["runtime_reqs"]) | {nd["extension"]})}):
                                err("V23", f"extension op {nd['name']} at node {i}: stored signature {nd['signature']} differs from the definition's scheme applied to the args ({inst})")
                        except (H.SubstError, IndexError, KeyError) as e:
                            err("V23", f"extension op {nd['name']} at node {i}: cannot instantiate: {e}")
    return errs


def _function_values(v):
    k = v.get("v")
    if k == "Function":
        yield v["hugr"]
    elif k in ("Sum", "Tuple"):
        for x in v["vs"]:
            yield from _function_values(x)
    elif k == "Extension":
        pay = v["value"]["v"]
        body = pay.get("value", pay) if isinstance(pay, dict) else {}
        for x in body.get("values", []) if isinstance(body, dict) else []:
            if isinstance(x, dict):
                yield from _function_values(x)
