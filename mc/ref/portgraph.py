"""R1 - reference model: a hierarchical port multigraph, deliberately boring.

nodes : dict idx -> RNode(parent, children list, requested out count, op label)
links : list of (src_idx, src_off, dst_idx, dst_off) in insertion order (a multiset with order)

Offsets: value ports >= 0; the state-order port is offset -1 in both directions.
Index allocation is *not* predicted: the model adopts whatever index the implementation
returns and only asserts that it was not live."""

from __future__ import annotations

from collections import Counter
from dataclasses import dataclass, field


@dataclass
class RNode:
    parent: int | None
    op: object
    req_outs: int | None = None
    children: list = field(default_factory=list)
    metadata: dict = field(default_factory=dict)


class PortGraph:
    def __init__(self, root_op=None):
        self.nodes: dict[int, RNode] = {0: RNode(None, root_op, 0)}
        self.root = 0
        self.links: list[tuple[int, int, int, int]] = []

    # ---- mutations -------------------------------------------------------------------
    def add_node(self, idx: int, parent: int, op, req_outs=None, metadata=None) -> None:
        assert idx not in self.nodes
        assert parent in self.nodes
        self.nodes[idx] = RNode(parent, op, req_outs, [], dict(metadata or {}))
        self.nodes[parent].children.append(idx)

    def add_link(self, s, so, d, do) -> None:
        self.links.append((s, so, d, do))

    def count(self, s, so, d, do) -> int:
        return sum(1 for l in self.links if l == (s, so, d, do))

    def delete_link(self, s, so, d, do) -> bool:
        """Removes exactly one copy (the oldest) if present."""
        for i, l in enumerate(self.links):
            if l == (s, so, d, do):
                del self.links[i]
                return True
        return False

    def delete_node(self, idx: int) -> RNode:
        n = self.nodes.pop(idx)
        assert not n.children, "model only deletes leaves"
        if n.parent is not None:
            self.nodes[n.parent].children.remove(idx)
        self.links = [l for l in self.links if l[0] != idx and l[2] != idx]
        return n

    # ---- queries ---------------------------------------------------------------------
    def out_links(self, s, so) -> list[tuple[int, int]]:
        return [(d, do) for (a, b, d, do) in self.links if (a, b) == (s, so)]

    def in_links(self, d, do) -> list[tuple[int, int]]:
        return [(s, so) for (s, so, a, b) in self.links if (a, b) == (d, do)]

    def max_out(self, n) -> int:
        return max([so for (s, so, _, _) in self.links if s == n] + [-1])

    def max_in(self, n) -> int:
        return max([do for (_, _, d, do) in self.links if d == n] + [-1])

    def link_multiset(self) -> Counter:
        return Counter(self.links)

    def canon(self):
        return (
            tuple(sorted((i, n.parent, tuple(n.children), n.req_outs, repr(n.op)) for i, n in self.nodes.items())),
            tuple(self.links),
        )
