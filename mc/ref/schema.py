"""Validation against the *published* strict JSON schema (specification/schema/
hugr_schema_strict_live.json) with per-component memoisation: array items are validated
independently by JSON Schema, so every node / extension document is validated once per distinct
text and the remaining skeleton separately."""

from __future__ import annotations

import json
import os
from functools import lru_cache


@lru_cache(maxsize=1)
def _load():
    import jsonschema  # noqa: F401
    from jsonschema import Draft202012Validator

    root = os.environ.get("HUGR_REPO", "/repo")
    schema = json.load(open(os.path.join(root, "specification", "schema", "hugr_schema_strict_live.json")))
    defs = schema["$defs"]

    def v(ref):
        return Draft202012Validator({"$ref": ref, "$defs": defs})

    node_ref = defs["SerialHugr"]["properties"]["nodes"]["items"]
    return {
        "hugr": v("#/$defs/SerialHugr"),
        "node": Draft202012Validator({**node_ref, "$defs": defs}),
        "package": v("#/$defs/Package"),
        "extension": v("#/$defs/Extension"),
        "defs": defs,
    }


_CACHE: dict = {}


def _cached(kind, obj):
    key = (kind, json.dumps(obj, sort_keys=True))
    r = _CACHE.get(key)
    if r is None:
        r = [f"{'/'.join(map(str, e.absolute_path))}: {e.message[:160]}" for e in _load()[kind].iter_errors(obj)][:3]
        if len(_CACHE) > 200000:
            _CACHE.clear()
        _CACHE[key] = r
    return r


def hugr_errors(doc) -> list[str]:
    errs = []
    nodes = doc.get("nodes")
    if isinstance(nodes, list):
        for i, n in enumerate(nodes):
            if isinstance(n, dict) and isinstance(n.get("parent"), int):
                e = _cached("node", {**n, "parent": 0})
            else:
                e = _cached("node", n)
            errs += [f"nodes/{i}/{m}" for m in e]
        errs += _cached("hugr", {**doc, "nodes": []})
    else:
        errs += _cached("hugr", doc)
    return errs


def extension_errors(doc) -> list[str]:
    return _cached("extension", doc)


def package_errors(doc) -> list[str]:
    errs = []
    mods, exts = doc.get("modules"), doc.get("extensions", [])
    if isinstance(mods, list) and isinstance(exts, list):
        for i, m in enumerate(mods):
            errs += [f"modules/{i}/{x}" for x in hugr_errors(m)]
        for i, e in enumerate(exts):
            errs += [f"extensions/{i}/{x}" for x in extension_errors(e)]
        errs += _cached("package", {**doc, "modules": [], "extensions": []})
    else:
        errs += _cached("package", doc)
    return errs
