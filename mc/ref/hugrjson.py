"""R2 (part 1) - reader of serialized HUGR documents: hierarchy, per-operation port layout and
a small type algebra on JSON types.  Works on the JSON text only; imports nothing from hugr.

Port layout (transcribed from hugr-core/src/ops.rs:170-283, ops/dataflow.rs, ops/controlflow.rs,
ops/module.rs, ops/constant.rs): value ports from the signature; the static port right after the
value inputs (Call / LoadConstant / LoadFunction) resp. static output 0 (Const / FuncDefn /
FuncDecl); one state-order port after those for dataflow ops (Input: out only, Output: in only);
1 control input and len(sum_rows) control outputs for blocks; none for Module/Case/Alias*."""

from __future__ import annotations

import json
import os
from dataclasses import dataclass, field
from functools import lru_cache

from mc.drivers.terms import norm_type_json as norm
from mc.ref.values import Inhabit, value_type

C, A = "C", "A"


def tok(t) -> str:
    return json.dumps(norm(t), sort_keys=True)


def g_sum(rows):
    return {"t": "Sum", "s": "General", "rows": rows}


def fn_type(sig):
    return {"t": "G", "input": sig["input"], "output": sig["output"], "runtime_reqs": sig.get("runtime_reqs", [])}


def bound(t) -> str:
    k = t["t"]
    if k == "Q":
        return A
    if k in ("I", "G"):
        return C
    if k in ("V", "R"):
        return t["b"]
    if k in ("Opaque", "Alias"):
        return t["bound"]
    if k == "Sum":
        if t["s"] == "Unit":
            return C
        return A if any(bound(x) == A for r in t["rows"] for x in r) else C
    raise ValueError(f"unknown type {t}")


# ------------------------------------------------------------------ substitution
class SubstError(Exception):
    pass


def subst_row(row, args):
    out = []
    for t in row:
        if t["t"] == "R":
            a = args[t["i"]]
            if a["tya"] == "Sequence":
                for e in a["elems"]:
                    if e["tya"] != "Type":
                        raise SubstError(f"row variable {t['i']} instantiated with non-type {e}")
                    out.append(e["ty"])
            elif a["tya"] == "Variable":
                p = a["cached_decl"]
                out.append({"t": "R", "i": a["idx"], "b": p.get("param", {}).get("b", A)})
            else:
                raise SubstError(f"row variable {t['i']} instantiated with {a}")
        else:
            out.append(subst(t, args))
    return out


def subst(t, args):
    k = t["t"]
    if k == "V":
        a = args[t["i"]]
        if a["tya"] == "Type":
            return a["ty"]
        if a["tya"] == "Variable":
            return {"t": "V", "i": a["idx"], "b": a["cached_decl"].get("b", A)}
        raise SubstError(f"type variable {t['i']} instantiated with {a}")
    if k == "R":
        raise SubstError("row variable outside a row")
    if k == "Sum":
        if t["s"] == "Unit":
            return t
        return g_sum([subst_row(r, args) for r in t["rows"]])
    if k == "G":
        return {"t": "G", "input": subst_row(t["input"], args), "output": subst_row(t["output"], args), "runtime_reqs": t.get("runtime_reqs", [])}
    if k == "Opaque":
        return {**t, "args": [subst_arg(a, args) for a in t["args"]]}
    return t


def subst_arg(a, args):
    k = a["tya"]
    if k == "Type":
        return {"tya": "Type", "ty": subst(a["ty"], args)}
    if k == "Sequence":
        return {"tya": "Sequence", "elems": [subst_arg(e, args) for e in a["elems"]]}
    if k == "Variable":
        return args[a["idx"]]
    return a


def subst_sig(body, args):
    return {"t": "G", "input": subst_row(body["input"], args), "output": subst_row(body["output"], args), "runtime_reqs": body.get("runtime_reqs", [])}


def arg_fits(a, p) -> bool:
    ak, pk = a["tya"], p["tp"]
    if ak == "Variable":
        return param_contains(p, a["cached_decl"])
    if pk == "Type":
        return ak == "Type" and a["ty"]["t"] != "R" and (p["b"] == A or bound(a["ty"]) == C)
    if pk == "BoundedNat":
        return ak == "BoundedNat" and (p["bound"] is None or a["n"] < p["bound"])
    if pk == "String":
        return ak == "String"
    if pk == "Extensions":
        return ak == "Extensions"
    if pk == "List":
        if ak != "Sequence":
            return False
        inner = p["param"]
        for e in a["elems"]:
            if e["tya"] == "Type" and e["ty"]["t"] == "R" and inner["tp"] == "Type":
                if not (inner["b"] == A or e["ty"]["b"] == C):
                    return False
            elif not arg_fits(e, inner):
                return False
        return True
    if pk == "Tuple":
        return ak == "Sequence" and len(a["elems"]) == len(p["params"]) and all(arg_fits(e, q) for e, q in zip(a["elems"], p["params"]))
    return False


def param_contains(p, q) -> bool:
    """p is at least as permissive as q."""
    if p["tp"] != q["tp"]:
        return False
    if p["tp"] == "Type":
        return p["b"] == A or q["b"] == C
    if p["tp"] == "BoundedNat":
        return p["bound"] is None or (q["bound"] is not None and q["bound"] <= p["bound"])
    if p["tp"] == "List":
        return param_contains(p["param"], q["param"])
    if p["tp"] == "Tuple":
        return len(p["params"]) == len(q["params"]) and all(param_contains(a, b) for a, b in zip(p["params"], q["params"]))
    return True


def check_vars(t, params, errs, in_row=False):
    """V21: variables used by a type must be declared by `params` with exactly that kind."""
    k = t["t"]
    if k == "V":
        if t["i"] >= len(params) or params[t["i"]] != {"tp": "Type", "b": t["b"]}:
            errs.append(f"type variable {t['i']}:{t['b']} not declared by {params}")
    elif k == "R":
        if not in_row:
            errs.append("row variable used outside a row")
        if t["i"] >= len(params) or params[t["i"]] != {"tp": "List", "param": {"tp": "Type", "b": t["b"]}}:
            errs.append(f"row variable {t['i']}:{t['b']} not declared by {params}")
    elif k == "Sum" and t["s"] == "General":
        for r in t["rows"]:
            for x in r:
                check_vars(x, params, errs, True)
    elif k == "G":
        for x in [*t["input"], *t["output"]]:
            check_vars(x, params, errs, True)
    elif k == "Opaque":
        for a in t["args"]:
            check_arg_vars(a, params, errs)


def check_arg_vars(a, params, errs):
    k = a["tya"]
    if k == "Type":
        check_vars(a["ty"], params, errs, True)
    elif k == "Sequence":
        for e in a["elems"]:
            check_arg_vars(e, params, errs)
    elif k == "Variable":
        if a["idx"] >= len(params) or params[a["idx"]] != a["cached_decl"]:
            errs.append(f"variable arg {a['idx']} not declared as {a['cached_decl']} by {params}")


# ------------------------------------------------------------------ std extensions (spec files)
#: extensions registered by the harness (documents written by hand in the reference encoding);
#: the reference toolchain would be given them through its extension registry as well
EXTRA_EXTENSIONS: dict = {}


def register_extension(doc) -> None:
    EXTRA_EXTENSIONS[doc["name"]] = doc
    std_extensions.cache_clear()


@lru_cache(maxsize=1)
def std_extensions():
    root = os.path.join(os.environ.get("HUGR_REPO", "/repo"), "specification", "std_extensions")
    exts = {}
    for dp, _, fns in os.walk(root):
        for fn in fns:
            if fn.endswith(".json"):
                d = json.load(open(os.path.join(dp, fn)))
                exts[d["name"]] = d
    exts.update(EXTRA_EXTENSIONS)
    return exts


def opaque_type_errors(t, errs):
    """V24 for every opaque type nested in t that names a bundled standard extension."""
    k = t["t"]
    if k == "Sum" and t["s"] == "General":
        for r in t["rows"]:
            for x in r:
                opaque_type_errors(x, errs)
    elif k == "G":
        for x in [*t["input"], *t["output"]]:
            opaque_type_errors(x, errs)
    elif k == "Opaque":
        ext = std_extensions().get(t["extension"])
        for a in t["args"]:
            if a["tya"] == "Type":
                opaque_type_errors(a["ty"], errs)
        if ext is None:
            return
        td = ext["types"].get(t["id"])
        if td is None:
            errs.append(f"type {t['extension']}.{t['id']} is not defined by the extension")
            return
        if len(td["params"]) != len(t["args"]) or not all(arg_fits(a, p) for a, p in zip(t["args"], td["params"])):
            errs.append(f"args {t['args']} of {t['extension']}.{t['id']} do not fit params {td['params']}")
            return
        b = td["bound"]
        exp = b["bound"] if b["b"] == "Explicit" else (A if any(bound(t["args"][i]["ty"]) == A for i in b["indices"] if t["args"][i]["tya"] == "Type") else C)
        if t["bound"] != exp:
            errs.append(f"opaque type {t['extension']}.{t['id']} carries bound {t['bound']}, definition gives {exp}")


# ------------------------------------------------------------------ layout
@dataclass
class Layout:
    vin: list = field(default_factory=list)
    vout: list = field(default_factory=list)
    sin: tuple | None = None  # (kind, type/poly json) at in offset len(vin)
    sout: tuple | None = None  # at out offset 0 (ops with a static output have no value outputs)
    oin: bool = False
    oout: bool = False
    cfin: int = 0
    cfout: int = 0
    inner: tuple | None = None  # (input row, output row) of the child dataflow graph
    tag: str = ""

    @property
    def n_in(self):
        return len(self.vin) + (1 if self.sin else 0) + (1 if self.oin else 0) + self.cfin

    @property
    def n_out(self):
        return len(self.vout) + (1 if self.sout else 0) + (1 if self.oout else 0) + self.cfout

    def order_off(self, d):
        if d == "in":
            return len(self.vin) + (1 if self.sin else 0) if self.oin else None
        return len(self.vout) + (1 if self.sout else 0) if self.oout else None

    def kind(self, d, off):
        """('value', type) | ('const', type) | ('function', poly) | ('order',) | ('cf',) | None"""
        if d == "in":
            if self.cfin:
                return ("cf",) if off < self.cfin else None
            if off < len(self.vin):
                return ("value", self.vin[off])
            if self.sin and off == len(self.vin):
                return self.sin
            if self.oin and off == self.order_off("in"):
                return ("order",)
            return None
        if self.cfout:
            return ("cf",) if off < self.cfout else None
        if self.sout:
            return self.sout if off == 0 else None
        if off < len(self.vout):
            return ("value", self.vout[off])
        if self.oout and off == self.order_off("out"):
            return ("order",)
        return None


DATAFLOW_PARENTS = ("DFG", "FuncDefn", "Case", "TailLoop", "DataflowBlock")
LEAF_DF = ("Call", "LoadConstant", "LoadFunction", "CallIndirect", "Tag", "Extension")
SCOPED_DEFN = ("Const", "FuncDefn", "AliasDecl", "AliasDefn")


def layout(n) -> Layout:
    op = n["op"]
    L = Layout(tag=op)
    df = lambda i, o, oi=True, oo=True: L.__dict__.update(vin=list(i), vout=list(o), oin=oi, oout=oo)  # noqa: E731
    if op in ("Module", "AliasDecl", "AliasDefn"):
        pass
    elif op == "Case":
        L.inner = (n["signature"]["input"], n["signature"]["output"])
    elif op == "FuncDefn":
        L.sout = ("function", n["signature"])
        L.inner = (n["signature"]["body"]["input"], n["signature"]["body"]["output"])
    elif op == "FuncDecl":
        L.sout = ("function", n["signature"])
    elif op == "Const":
        try:
            L.sout = ("const", value_type(n["v"]))
        except Inhabit as e:
            L.sout = ("const", {"t": "invalid", "why": str(e)})
    elif op == "Input":
        df([], n["types"], oi=False)
    elif op == "Output":
        df(n["types"], [], oo=False)
    elif op == "DFG":
        df(n["signature"]["input"], n["signature"]["output"])
        L.inner = (n["signature"]["input"], n["signature"]["output"])
    elif op == "CFG":
        df(n["signature"]["input"], n["signature"]["output"])
    elif op == "Conditional":
        df([g_sum(n["sum_rows"]), *n["other_inputs"]], n["outputs"])
    elif op == "TailLoop":
        df([*n["just_inputs"], *n["rest"]], [*n["just_outputs"], *n["rest"]])
        L.inner = ([*n["just_inputs"], *n["rest"]], [g_sum([n["just_inputs"], n["just_outputs"]]), *n["rest"]])
    elif op == "DataflowBlock":
        L.cfin, L.cfout = 1, len(n["sum_rows"])
        L.inner = (n["inputs"], [g_sum(n["sum_rows"]), *n["other_outputs"]])
    elif op == "ExitBlock":
        L.cfin = 1
    elif op == "Call":
        df(n["instantiation"]["input"], n["instantiation"]["output"])
        L.sin = ("function", n["func_sig"])
    elif op == "LoadFunction":
        df([], [fn_type(n["instantiation"])])
        L.sin = ("function", n["func_sig"])
    elif op == "LoadConstant":
        df([], [n["datatype"]])
        L.sin = ("const", n["datatype"])
    elif op == "CallIndirect":
        s = n["signature"]
        df([fn_type(s), *s["input"]], s["output"])
    elif op == "Tag":
        df(n["variants"][n["tag"]] if 0 <= n["tag"] < len(n["variants"]) else [], [g_sum(n["variants"])])
    elif op == "Extension":
        df(n["signature"]["input"], n["signature"]["output"])
    else:
        raise ValueError(f"unknown op {op}")
    return L


def successor_row(n, i):
    return [*n["sum_rows"][i], *n["other_outputs"]]


@dataclass
class Doc:
    nodes: list
    layouts: list
    parent: list
    children: list
    edges: list  # resolved: (src, src_off, dst, dst_off, src_kind, dst_kind)
    raw_edges: list
    metadata: list


def read(doc) -> tuple[Doc | None, list]:
    """Reads nodes in list order as hugr-core/src/hugr/serialize.rs:216-282 does.
    Returns (Doc, errors); errors use rule ids V01/V02."""
    errs = []
    nodes = doc.get("nodes") or []
    if not nodes:
        return None, [("V01", "document has no nodes")]
    parent = []
    children = [[] for _ in nodes]
    for i, n in enumerate(nodes):
        p = n.get("parent")
        if i == 0:
            if p != 0:
                errs.append(("V01", f"node 0 has parent {p}; the root must be node 0 and its own parent"))
            parent.append(None)
            continue
        if not isinstance(p, int) or p < 0 or p >= len(nodes):
            errs.append(("V01", f"node {i} has parent {p} which is not a node"))
            parent.append(None)
            continue
        if p >= i:
            errs.append(("V01", f"node {i} has parent {p}: a parent must be a different node listed earlier"))
        parent.append(p)
        children[p].append(i)
    if errs:
        return None, errs
    try:
        layouts = [layout(n) for n in nodes]
    except (KeyError, ValueError, TypeError) as e:
        return None, [("V00", f"cannot compute port layout: {type(e).__name__}: {e}")]
    edges = []
    for e in doc.get("edges", []):
        (s, so), (d, do) = e
        if not (isinstance(s, int) and isinstance(d, int) and 0 <= s < len(nodes) and 0 <= d < len(nodes)):
            errs.append(("V02", f"edge {e} names a node that does not exist"))
            continue
        if so is None:
            so = layouts[s].order_off("out")
            if so is None:
                errs.append(("V02", f"edge {e}: source written without offset but {nodes[s]['op']} has no order port"))
                continue
        if do is None:
            do = layouts[d].order_off("in")
            if do is None:
                errs.append(("V02", f"edge {e}: target written without offset but {nodes[d]['op']} has no order port"))
                continue
        if not (isinstance(so, int) and isinstance(do, int) and so >= 0 and do >= 0):
            errs.append(("V02", f"edge {e} has a negative or non-integer offset"))
            continue
        edges.append((s, so, d, do, layouts[s].kind("out", so), layouts[d].kind("in", do)))
    md = doc.get("metadata") or []
    return Doc(nodes, layouts, parent, children, edges, doc.get("edges", []), md), errs
