"""R4 - the type a *serialized* constant inhabits, read from the JSON document alone
(hugr-core/src/ops/constant.rs: Value::get_type / validate; std extension constants).
Raises Inhabit when the document does not inhabit the type it declares."""

from __future__ import annotations

from mc.drivers.terms import norm_type_json


class Inhabit(Exception):
    pass


def _g(rows):
    return {"t": "Sum", "s": "General", "rows": rows}


def _opaque_args(typ, ext, id_):
    if typ.get("t") != "Opaque" or typ.get("extension") != ext or typ.get("id") != id_:
        raise Inhabit(f"expected type {ext}.{id_}, document declares {typ.get('extension')}.{typ.get('id')}")
    return typ.get("args", [])


def value_type(doc):
    """Normalised type document of the value document `doc`."""
    kind = doc.get("v")
    if kind == "Tuple":
        return _g([[value_type(x) for x in doc["vs"]]])
    if kind == "Sum":
        typ = norm_type_json({"t": "Sum", **doc["typ"]})
        rows = typ["rows"]
        tag = doc["tag"]
        if not (isinstance(tag, int) and 0 <= tag < len(rows)):
            raise Inhabit(f"tag {tag} out of range for {len(rows)} variants")
        if len(doc["vs"]) != len(rows[tag]):
            raise Inhabit(f"variant {tag} has {len(rows[tag])} fields, value carries {len(doc['vs'])}")
        for i, (x, t) in enumerate(zip(doc["vs"], rows[tag])):
            xt = value_type(x)
            if xt != t:
                raise Inhabit(f"field {i} of variant {tag} has type {xt}, variant row says {t}")
        return typ
    if kind == "Extension":
        typ = norm_type_json(doc["typ"])
        name, payload = doc["value"]["c"], doc["value"]["v"]
        exts = doc.get("extensions", [])

        def need_ext(e):
            if e not in exts:
                raise Inhabit(f"constant {name} does not list its defining extension {e} (lists {exts})")

        if name == "ConstInt":
            args = _opaque_args(typ, "arithmetic.int.types", "int")
            if args != [{"tya": "BoundedNat", "n": payload["log_width"]}]:
                raise Inhabit(f"ConstInt of log_width {payload['log_width']} typed {args}")
            need_ext("arithmetic.int.types")
        elif name == "ConstF64":
            _opaque_args(typ, "arithmetic.float.types", "float64")
            need_ext("arithmetic.float.types")
        elif name == "ConstString":
            _opaque_args(typ, "prelude", "string")
            need_ext("prelude")
        elif name in ("ArrayValue", "ListValue", "StaticArrayValue"):
            if name == "ArrayValue":
                args = _opaque_args(typ, "collections.array", "array")
                body = payload
                need_ext("collections.array")
                if len(args) != 2 or args[0] != {"tya": "BoundedNat", "n": len(body["values"])}:
                    raise Inhabit(f"array of {len(body['values'])} elements typed with size arg {args[:1]}")
                elem_arg = args[1]
            elif name == "ListValue":
                args = _opaque_args(typ, "collections.list", "List")
                body = payload
                need_ext("collections.list")
                if len(args) != 1:
                    raise Inhabit(f"List args {args}")
                elem_arg = args[0]
            else:
                args = _opaque_args(typ, "collections.static_array", "static_array")
                body = payload["value"]
                need_ext("collections.static_array")
                if not isinstance(payload.get("name"), str):
                    raise Inhabit("static array value without a name")
                if len(args) != 1:
                    raise Inhabit(f"static_array args {args}")
                elem_arg = args[0]
            et = norm_type_json(body["typ"])
            if elem_arg != {"tya": "Type", "ty": et}:
                raise Inhabit(f"element type argument {elem_arg} differs from the embedded element type {et}")
            for i, x in enumerate(body["values"]):
                if not isinstance(x, dict) or "v" not in x:
                    raise Inhabit(f"element {i} is not embedded as a complete value: {x!r}")
                xt = value_type(x)
                if xt != et:
                    raise Inhabit(f"element {i} has type {xt}, element type is {et}")
        return typ
    if kind == "Function":
        h = doc["hugr"]
        root = h["nodes"][0]
        if root["op"] == "DFG":
            sig = root["signature"]
        elif root["op"] == "FuncDefn":
            if root["signature"]["params"]:
                raise Inhabit("function value with a polymorphic root")
            sig = root["signature"]["body"]
        elif root["op"] == "TailLoop":
            # inner_function_type of a TailLoop: just_inputs + rest -> [Sum(just_inputs, just_outputs), *rest]
            sig = {"input": [*root["just_inputs"], *root["rest"]],
                   "output": [_g([root["just_inputs"], root["just_outputs"]]), *root["rest"]], "runtime_reqs": root.get("extension_delta", [])}
        elif root["op"] == "Case":
            sig = root["signature"]
        elif root["op"] == "DataflowBlock":
            sig = {"input": root["inputs"], "output": [_g(root["sum_rows"]), *root["other_outputs"]], "runtime_reqs": root.get("extension_delta", [])}
        else:
            raise Inhabit(f"function value rooted at {root['op']}")
        # the type of the constant is the signature of the body (children 0/1 are its Input/Output)
        kids = [n for i, n in enumerate(h["nodes"]) if n["parent"] == 0 and i != 0]
        if len(kids) >= 2 and kids[0]["op"] == "Input" and kids[1]["op"] == "Output":
            if norm_type_json(kids[0]["types"]) != norm_type_json(sig["input"]) or norm_type_json(kids[1]["types"]) != norm_type_json(sig["output"]):
                raise Inhabit("function value: root signature differs from its body's Input/Output rows")
        return norm_type_json({"t": "G", "input": sig["input"], "output": sig["output"], "runtime_reqs": sig.get("runtime_reqs", [])})
    raise Inhabit(f"unknown value kind {kind!r}")
