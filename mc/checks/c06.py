"""C06 - operation signatures and port kinds follow the specification's typing rules.

E3: every op of the bounded op grammar (mc/drivers/opterms.py) x every port offset
-1..n+1 in both directions; oracle = R3 signature table (opterms.ref_sig)."""

from __future__ import annotations

import json

from mc.drivers import opterms as O
from mc.drivers import terms as T
from mc.engine.core import Collector, Result, Violation, pmap


def tok_json(j):
    return json.dumps(T.norm_type_json(j), sort_keys=True)


def tok(ty):
    """Token of a hugr-py type object (via its encoding, normalised)."""
    return tok_json(ty._to_serial().model_dump(mode="json"))


def rtok(spec):
    return tok_json(T.ref_type_json(spec))


def kind_tok(k):
    from hugr import tys

    if isinstance(k, tys.ValueKind):
        return ("value", tok(k.ty))
    if isinstance(k, tys.ConstKind):
        return ("const", tok(k.ty))
    if isinstance(k, tys.FunctionKind):
        return ("function", tok(k.ty))
    if isinstance(k, tys.CFKind):
        return ("cf",)
    if isinstance(k, tys.OrderKind):
        return ("order",)
    return ("?", repr(k))


def _try(f):
    try:
        return ("ok", f())
    except Exception as e:  # noqa: BLE001
        return ("exc", type(e).__name__)


def expected_kind(sig, direction, off):
    """R3: kind of port (direction in {'in','out'}, off) or None if the op has no such port."""
    if direction == "in":
        if off == -1:
            return ("order",) if sig["order_in"] else None
        if sig["cf_in"]:
            return ("cf",) if off < sig["cf_in"] else None
        if off < len(sig["vin"]):
            return ("value", rtok(sig["vin"][off]))
        if sig["static_in"] and off == sig["static_in"][0]:
            k, t = sig["static_in"][1]
            return (k, rtok(t))
        return None
    if off == -1:
        return ("order",) if sig["order_out"] else None
    if sig["cf_out"]:
        return ("cf",) if off < sig["cf_out"] else None
    if sig["static_out"]:
        if off == 0:
            k, t = sig["static_out"]
            return (k, rtok(t))
        return None
    if off < len(sig["vout"]):
        return ("value", rtok(sig["vout"][off]))
    return None


def check_op(spec):
    k = spec[0]
    try:
        op = O.build_op(spec)
    except Exception as e:  # noqa: BLE001
        return [(f"{k}:build-raised", f"{spec}: constructing raised {type(e).__name__}: {e}")]
    return check_op_object(op, spec)


def check_op_object(op, spec):
    """All derived facts of an op object against R3 for `spec` (also used by C05 on decoded ops)."""
    from hugr import ops
    from hugr.hugr import Hugr
    from hugr.hugr.node_port import InPort, Node, OutPort

    k = spec[0]
    fails = []
    sig = O.ref_sig(spec)

    def bad(what, msg):
        fails.append((f"{k}:{what}", f"{spec}: {msg}"))

    # ---- output count
    got = _try(lambda: op.num_out)
    if got != ("ok", sig["num_out"]):
        bad("num_out", f"num_out = {got}, specification: {sig['num_out']}")
    # ---- outer signature
    if sig["dataflow"]:
        if hasattr(op, "outer_signature"):
            r = _try(lambda: op.outer_signature())
            if r[0] != "ok":
                bad("outer_signature:raised", f"outer_signature() raised {r[1]}")
            else:
                gi, go = [tok(t) for t in r[1].input], [tok(t) for t in r[1].output]
                if gi != [rtok(t) for t in sig["vin"]]:
                    bad("outer_signature:inputs", f"outer inputs {r[1].input}, specification {sig['vin']}")
                if go != [rtok(t) for t in sig["vout"]]:
                    bad("outer_signature:outputs", f"outer outputs {r[1].output}, specification {sig['vout']}")
        elif k != "Call":
            bad("outer_signature:missing", "dataflow op without outer_signature()")
    # ---- inner signature
    if sig["inner"] is not None:
        r = _try(lambda: op.inner_signature())
        if r[0] != "ok":
            bad("inner_signature:raised", f"inner_signature() raised {r[1]}")
        else:
            if [tok(t) for t in r[1].input] != [rtok(t) for t in sig["inner"][0]]:
                bad("inner_signature:inputs", f"inner inputs {r[1].input}, specification {sig['inner'][0]}")
            if [tok(t) for t in r[1].output] != [rtok(t) for t in sig["inner"][1]]:
                bad("inner_signature:outputs", f"inner outputs {r[1].output}, specification {sig['inner'][1]}")
            if k == "DFG":
                # "a DFG's outer signature equals its body's": the requirement set is part of the signature
                ro = _try(lambda: op.outer_signature())
                if ro[0] == "ok" and (sorted(r[1].runtime_reqs) != sorted(spec[3]) or sorted(ro[1].runtime_reqs) != sorted(spec[3])):
                    bad("inner_signature:runtime_reqs", f"DFG with requirement set {spec[3]}: inner_signature() has {r[1].runtime_reqs}, outer_signature() has {ro[1].runtime_reqs}")
    # ---- per-successor / per-case rows
    if sig["nth"] is not None:
        meth = "nth_inputs" if k == "Conditional" else "nth_outputs"
        for i, exp in enumerate(sig["nth"]):
            r = _try(lambda: getattr(op, meth)(i))
            if r[0] != "ok" or [tok(t) for t in r[1]] != [rtok(t) for t in exp]:
                bad(meth, f"{meth}({i}) = {r[1] if r[0] == 'ok' else r}, specification {exp}")
    # ---- every port
    h = Hugr(ops.Module())
    n = h.add_node(op, h.root)
    n_in = max(len(sig["vin"]) + (1 if sig["static_in"] else 0), sig["cf_in"])
    n_out = max(len(sig["vout"]), sig["cf_out"], 1 if sig["static_out"] else 0)
    for direction, cnt, P in (("in", n_in, InPort), ("out", n_out, OutPort)):
        for off in range(-1, cnt + 2):
            exp = expected_kind(sig, direction, off)
            port = P(Node(0), off)
            r = _try(lambda: op.port_kind(port))
            where = "order" if off == -1 else ("static" if (direction == "in" and sig["static_in"] and off == sig["static_in"][0]) or (direction == "out" and sig["static_out"] and off == 0) else ("past-end" if exp is None else "value"))
            if exp is None:
                # no such port: raising is fine; reporting a *value* kind with a type would be wrong
                if r[0] == "ok" and kind_tok(r[1])[0] in ("value", "const", "function") and off >= 0:
                    bad(f"port_kind:{direction}:{where}:phantom", f"port_kind({direction} {off}) = {r[1]} but the op has no such port")
                continue
            if r[0] != "ok":
                bad(f"port_kind:{direction}:{where}:raised", f"port_kind({direction} {off}) raised {r[1]}, specification {exp[0]}")
                continue
            if kind_tok(r[1]) != exp:
                bad(f"port_kind:{direction}:{where}", f"port_kind({direction} {off}) = {r[1]}, specification {exp}")
            rh = _try(lambda: h.port_kind(P(n, off)))
            if rh[0] != "ok" or kind_tok(rh[1]) != exp:
                bad(f"Hugr.port_kind:{direction}:{where}", f"Hugr.port_kind({direction} {off}) = {rh}, specification {exp}")
            if exp[0] == "value":
                if hasattr(op, "port_type"):
                    rt = _try(lambda: op.port_type(port))
                    if rt[0] != "ok" or tok(rt[1]) != exp[1]:
                        bad(f"port_type:{direction}", f"port_type({direction} {off}) = {rt}, specification {exp[1]}")
                if direction == "out":
                    rt = _try(lambda: h.port_type(P(n, off)))
                    if rt[0] != "ok" or rt[1] is None or tok(rt[1]) != exp[1]:
                        bad("Hugr.port_type:out", f"Hugr.port_type(out {off}) = {rt}, expected the payload of the port's kind")
            elif exp[0] != "value":
                rt = _try(lambda: h.port_type(P(n, off)))
                if rt[0] == "ok" and rt[1] is not None:
                    bad(f"Hugr.port_type:{direction}:non-value", f"Hugr.port_type({direction} {off}) = {rt[1]} for a {exp[0]} port")
    return fails


REUSE_OPS = [["Noop", T.BOOL], ["Noop", T.QB], ["Not"], ["DivMod", 3], ["MakeTuple", [T.QB]], ["Tag", 0, [[T.BOOL], []]], ["LoadConst", O.INT5], ["Input", [T.QB, T.BOOL]],
             ["Call", ["Poly", [], O.G([], [O.INT5])], O.G([], [O.INT5]), []], ["LoadFunc", ["Poly", [], O.G([T.QB], [])], O.G([T.QB], []), []], ["Const", ["TRUE"]], ["DFG", [T.BOOL], [O.FN], []]]


PARTIAL_ROWS = [[T.BOOL], [T.BOOL, T.BOOL], [T.BOOL, T.QB], [T.QB]]


def check_partial_retry(kind, row):
    """Operations whose types come from the wires they are given (Noop, MakeTuple, UnpackTuple): a first attempt
    with a wire that cannot be used (it lives inside a sibling region) is refused; the same op object wired
    again, this time with usable wires of the row `row`, reports exactly those types."""
    from hugr import ops
    from hugr.build.dfg import Dfg

    fails = []
    row_t = [T.build_type(t) for t in row]
    outer = Dfg(T.build_type(T.QB), *row_t)
    q, *good = outer.inputs()
    left = outer.add_nested(q)
    (q_inside,) = left.inputs()
    left.set_outputs(q_inside)
    right = outer.add_nested(*good)
    rgood = list(right.inputs())
    op = {"Noop": ops.Noop, "MakeTuple": ops.MakeTuple, "UnpackTuple": ops.UnpackTuple}[kind]()
    if kind == "UnpackTuple":
        mk = right.add_op(ops.MakeTuple(), *rgood)
        rgood_args = [mk[0]]
        bad_args = [q_inside]
    elif kind == "Noop":
        if len(rgood) != 1:
            return []
        rgood_args, bad_args = rgood, [q_inside]
    else:
        rgood_args, bad_args = rgood, [*rgood[:-1], q_inside] if len(rgood) > 1 else [q_inside]
    try:
        right.add_op(op, *bad_args)
        return [(f"partial-retry:{kind}:foreign-wire-accepted", f"{kind}: a wire from inside a sibling region was accepted")]
    except Exception:  # noqa: BLE001
        pass
    try:
        n = right.add_op(op, *rgood_args)
    except Exception as e:  # noqa: BLE001
        return [(f"partial-retry:{kind}:retry-raised", f"{kind} over {row}: wiring the same op object again raised {type(e).__name__}: {e}")]
    h = right.hugr
    sig = h[n].op.outer_signature()
    exp_in = [h.port_type(w.out_port()) for w in rgood_args]
    if list(sig.input) != exp_in:
        fails.append((f"partial-retry:{kind}:signature", f"{kind} refused once and wired again with {exp_in}: reports inputs {sig.input}"))
    for i, t in enumerate(sig.output):
        if h.port_type(n.out(i)) != t:
            fails.append((f"partial-retry:{kind}:port-type", f"{kind}: port {i} has type {h.port_type(n.out(i))}, signature says {t}"))
    if kind == "MakeTuple":
        u = right.add_op(ops.UnpackTuple(), n[0])
        if list(h[u].op.outer_signature().output) != exp_in:
            fails.append((f"partial-retry:{kind}:not-inverse", f"UnpackTuple after the re-wired MakeTuple yields {h[u].op.outer_signature().output}, MakeTuple was given {exp_in}"))
    return fails


def check_reuse(a_spec, b_spec, how):
    """Port queries answer for the op a node holds *now*: node A is queried, deleted, its index
    reused by B (or its op replaced in place), and B is queried."""
    from hugr import ops
    from hugr.hugr import Hugr
    from hugr.hugr.node_port import InPort, OutPort

    fails = []
    h = Hugr(ops.Module())
    h.add_node(ops.Custom("pad"), h.root)
    a = h.add_node(O.build_op(a_spec), h.root)
    sa = O.ref_sig(a_spec)
    for off in range(0, max(1, len(sa["vout"]))):
        _try(lambda: (h.port_kind(OutPort(a, off)), h.port_type(OutPort(a, off))))
    for off in range(0, max(1, len(sa["vin"]))):
        _try(lambda: (h.port_kind(InPort(a, off)), h.port_type(InPort(a, off))))
    bop = O.build_op(b_spec)
    if how == "delete+add":
        h.delete_node(a)
        b = h.add_node(bop, h.root)
        if b.idx != a.idx:
            return []
    else:
        h[a].op = bop
        b = a
    sb = O.ref_sig(b_spec)
    for direction, P, n in (("out", OutPort, max(len(sb["vout"]), 1 if sb["static_out"] else 0)), ("in", InPort, len(sb["vin"]) + (1 if sb["static_in"] else 0))):
        for off in range(n):
            exp = expected_kind(sb, direction, off)
            rk = _try(lambda: h.port_kind(P(b, off)))
            if exp is not None and (rk[0] != "ok" or kind_tok(rk[1]) != exp):
                fails.append((f"reuse:{how}:Hugr.port_kind:{direction}", f"{a_spec} then {b_spec} at the same index: port_kind({direction} {off}) = {rk}, specification {exp}"))
            rt = _try(lambda: h.port_type(P(b, off)))
            if exp is not None and exp[0] == "value" and direction == "out" and (rt[0] != "ok" or rt[1] is None or tok(rt[1]) != exp[1]):
                fails.append((f"reuse:{how}:Hugr.port_type:{direction}", f"{a_spec} then {b_spec} at the same index: port_type({direction} {off}) = {rt}, expected the payload of the port's kind"))
            if exp is not None and exp[0] != "value" and rt[0] == "ok" and rt[1] is not None:
                fails.append((f"reuse:{how}:Hugr.port_type:stale", f"{a_spec} then {b_spec}: port_type({direction} {off}) = {rt[1]} for a {exp[0]} port"))
    return fails


def _chunk(specs):
    out = []
    for s in specs:
        for sig, msg in check_op(s):
            out.append((sig, msg, s))
    return out


GRAMMAR = {"quick": "thorough", "thorough": "xdeep"}  # the term grammars are cheap: quick already uses the larger one


def run(tier: str, seed: int) -> Result:
    col = Collector()
    specs = O.op_specs(GRAMMAR[tier])
    chunks = [specs[i::64] for i in range(64)]
    for res in pmap(_chunk, chunks):
        for sig, msg, s in res:
            col.add(sig, msg, {"op": s})
    n_reuse = 0
    for a in REUSE_OPS:
        for b in REUSE_OPS:
            for how in ("delete+add", "replace-op"):
                n_reuse += 1
                for sig, msg in check_reuse(a, b, how):
                    col.add(sig, msg, {"reuse": [a, b, how]})
    n_retry = 0
    for kind in ("Noop", "MakeTuple", "UnpackTuple"):
        for row in PARTIAL_ROWS:
            n_retry += 1
            for sig, msg in check_partial_retry(kind, row):
                col.add(sig, msg, {"partial_retry": [kind, row]})
    kinds = {}
    for s in specs:
        kinds[s[0]] = kinds.get(s[0], 0) + 1
    col.sample({"op": specs[len(specs) // 3]})
    col.sample({"op": specs[-80]})
    n = len(specs)
    cov = {
        "states": n,
        "transitions": n,
        "traces_validated_against_impl": n,
        "evaluations": n,
        "distinct_nontrivial": sum(1 for s in specs if s[0] not in ("Module", "AliasDecl", "AliasDefn", "Not")),
        "rule": "every op class over all rows (len<=2; thorough 3) of {Bool, Qubit, int<5>, Tuple(Bool,Qubit), fn type}, all tags / "
        "variant lists, polymorphic and row-polymorphic Call/LoadFunc with arity-changing instantiation; for each op every port "
        "offset -1..n+1 in both directions, num_out, outer/inner signature, nth rows, Hugr.port_kind/port_type; oracle R3",
        "samples": col.samples,
        "exhaustive": True,
        "ops_per_kind": kinds,
        "index_reuse_cases": n_reuse,
        "partial_retry_cases": n_retry,
    }
    return Result(cov, col.violations, ["R3 table: mc/drivers/opterms.py::ref_sig (from specification/hugr.md, ops/dataflow.rs, ops/controlflow.rs)",
                                        "types are compared by normalised encoding (Unit spelling == General spelling)"])


def replay(case) -> list[Violation]:
    if "reuse" in case:
        return [Violation(s, m, case) for s, m in check_reuse(*case["reuse"])]
    if "partial_retry" in case:
        return [Violation(s, m, case) for s, m in check_partial_retry(*case["partial_retry"])]
    return [Violation(s, m, case) for s, m in check_op(case["op"])]
