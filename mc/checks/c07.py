"""C07 - a type is reported copyable only if all of its constituents are.

E3: every type of the bounded grammar (mc/drivers/terms.py), every extension type
definition over a parameter/bound alphabet with every fitting argument list, std containers
over every element type; oracle = R5 bound calculus + bounds found in the serialized form."""

from __future__ import annotations

import itertools
import json

from mc.drivers import terms as T
from mc.engine.core import Collector, Result, Violation


def _bounds_in(j, out):
    """All 'bound' fields of opaque types in a type document, in document order."""
    if isinstance(j, list):
        for x in j:
            _bounds_in(x, out)
    elif isinstance(j, dict):
        if j.get("t") == "Opaque":
            out.append((j.get("extension"), j.get("id"), j.get("bound")))
        for v in j.values():
            _bounds_in(v, out)
    return out


def _enc(ty):
    return json.loads(ty._to_serial_root().model_dump_json())


def check_type(spec):
    fails = []
    try:
        ty = T.build_type(spec)
    except Exception as e:  # noqa: BLE001
        return [(f"build:{spec[0]}:raised", f"{spec}: constructing raised {type(e).__name__}: {e}")]
    exp = T.ref_bound(spec)
    got = ty.type_bound().value
    if got != exp:
        fails.append((f"type_bound:{spec[0]}:{'over' if exp == T.A else 'under'}-approx", f"{spec}: type_bound()={got}, specification says {exp}"))
    try:
        j = _enc(ty)
    except Exception as e:  # noqa: BLE001
        return fails + [(f"encode:{spec[0]}:raised", f"{spec}: serializing raised {type(e).__name__}: {e}")]
    gb = _bounds_in(j, [])
    eb = _bounds_in(T.ref_type_json(spec), [])
    if gb != eb:
        fails.append((f"serialized-bound:{spec[0]}", f"{spec}: opaque bounds in document {gb}, expected {eb}"))
    return fails


# ---------------------------------------------------------------- type definitions
ARG_TYPES = [T.BOOL, T.QB, ["Tuple", [T.BOOL, T.QB]], ["V", 0, T.A], ["V", 1, T.C], ["G", [T.QB], [T.QB], []], ["Option", [T.INT5]]]
PARAM_KINDS = [["TP", T.C], ["TP", T.A], ["NP", None]]


def typedef_cases(tier):
    maxp = 2 if tier == "quick" else 3
    for n in range(0, maxp + 1):
        for params in itertools.product(PARAM_KINDS, repeat=n):
            idx_subsets = []
            for r in range(0, n + 1):
                for sub in itertools.permutations(range(n), r):
                    idx_subsets.append(list(sub))
            bounds = [["Explicit", T.C], ["Explicit", T.A]] + [["FromParams", s] for s in idx_subsets]
            argsets = []
            for p in params:
                if p[0] == "NP":
                    argsets.append([["NA", 3]])
                else:
                    argsets.append([["TA", t] for t in ARG_TYPES if p[1] == T.A or T.ref_bound(t) == T.C])
            for bound in bounds:
                for args in itertools.product(*argsets):
                    yield [list(params), bound, list(args)]


def check_typedef(case):
    from hugr import ext, tys

    params, bound, args = case
    fails = []
    e = ext.Extension("c07.ext", ext.Version(0, 1, 0))
    B = {"C": tys.TypeBound.Copyable, "A": tys.TypeBound.Any}
    b = ext.ExplicitBound(B[bound[1]]) if bound[0] == "Explicit" else ext.FromParamsBound(list(bound[1]))
    td = e.add_type_def(ext.TypeDef("T", "d", [T.build_param(p) for p in params], b))
    ty = td.instantiate([T.build_arg(a) for a in args])
    if bound[0] == "Explicit":
        exp = bound[1]
    else:
        exp = T.join(T.ref_bound(args[i][1]) for i in bound[1] if args[i][0] == "TA")
    try:
        got = ty.type_bound().value
    except Exception as ex:  # noqa: BLE001
        return [(f"typedef:{bound[0]}:raised", f"{case}: type_bound raised {type(ex).__name__}: {ex}")]
    if got != exp:
        fails.append((f"typedef:{bound[0]}:{'over' if exp == T.A else 'under'}-approx", f"def(params={params}, bound={bound}) args={args}: type_bound()={got}, expected {exp}"))
    j = _enc(ty)
    if j.get("bound") != exp:
        fails.append((f"typedef:{bound[0]}:serialized-bound", f"{case}: serialized bound {j.get('bound')}, expected {exp}"))
    # the same type nested in a sum keeps contributing its bound
    nested = tys.Tuple(tys.Bool, ty)
    if nested.type_bound().value != exp:
        fails.append((f"typedef:{bound[0]}:nested", f"{case}: Tuple(Bool, T<..>).type_bound()={nested.type_bound().value}, expected {exp}"))
    return fails


def check_join(seq):
    from hugr.tys import TypeBound

    B = {"C": TypeBound.Copyable, "A": TypeBound.Any}
    got = TypeBound.join(*[B[x] for x in seq]).value
    exp = T.join(seq)
    return [] if got == exp else [("join", f"TypeBound.join{tuple(seq)} = {got}, expected {exp}")]


def check_container(kind, elem):
    """std Array / List / StaticArray over an element type."""
    fails = []
    eb = T.ref_bound(elem)
    if kind == "sarray":
        from hugr.std.collections.static_array import StaticArray

        elem_ty = T.build_type(elem)
        for attempt in (1, 2):  # the same element type object twice: a refusal is not remembered as a check done
            try:
                ty = StaticArray(elem_ty)
                if eb == T.A:
                    fails.append((f"StaticArray:accepts-linear{':second-attempt' if attempt == 2 else ''}", f"StaticArray({elem}) accepted a non-copyable element type (attempt {attempt} with the same type object)"))
                elif ty.type_bound().value != T.C:
                    fails.append(("StaticArray:bound", f"StaticArray({elem}).type_bound() = {ty.type_bound().value}"))
            except ValueError:
                if eb == T.C:
                    fails.append(("StaticArray:rejects-copyable", f"StaticArray({elem}) raised ValueError for a copyable element"))
        return fails
    spec = ["array", 2, elem] if kind == "array" else ["list", elem]
    return check_type(spec)


def check_shared_typedef(params, bound):
    """All fitting argument lists instantiated on ONE TypeDef object, in both orders: every instantiation
    reports the bound of its own arguments whatever was instantiated before."""
    from hugr import ext, tys

    B = {"C": tys.TypeBound.Copyable, "A": tys.TypeBound.Any}
    fails = []
    argsets = []
    for p in params:
        if p[0] == "NP":
            argsets.append([["NA", 3]])
        else:
            argsets.append([["TA", t] for t in ARG_TYPES + [["V", 0, T.C], ["V", 1, T.A], ["Alias", "al", T.C], ["Alias", "al", T.A]] if p[1] == T.A or T.ref_bound(t) == T.C])
    combos = [list(c) for c in itertools.product(*argsets)]
    for order in (combos, list(reversed(combos))):
        e = ext.Extension("c07.shared", ext.Version(0, 1, 0))
        b = ext.ExplicitBound(B[bound[1]]) if bound[0] == "Explicit" else ext.FromParamsBound(list(bound[1]))
        td = e.add_type_def(ext.TypeDef("T", "d", [T.build_param(p) for p in params], b))
        for args in order:
            ty = td.instantiate([T.build_arg(a) for a in args])
            exp = bound[1] if bound[0] == "Explicit" else T.join(T.ref_bound(args[i][1]) for i in bound[1] if args[i][0] == "TA")
            got = ty.type_bound().value
            ser = _enc(ty).get("bound")
            if got != exp or ser != exp:
                fails.append((f"typedef:shared:{'over' if exp == T.A else 'under'}-approx", f"def(params={params}, bound={bound}) instantiated with {args} after other instantiations of the same definition: type_bound()={got}, serialized {ser}, expected {exp}"))
                return fails
    return fails


GRAMMAR = {"quick": "thorough", "thorough": "xdeep"}  # the term grammars are cheap: quick already uses the larger one


def run(tier: str, seed: int) -> Result:
    col = Collector()
    specs = T.type_specs(GRAMMAR[tier])
    n = 0
    nontriv = 0
    for s in specs:
        n += 1
        if s[0] not in ("Q", "I", "Unit", "V", "R", "Alias"):
            nontriv += 1
        for sig, msg in check_type(s):
            col.add(sig, msg, {"type": s})
    col.sample({"type": specs[len(specs) // 2]})
    col.sample({"type": specs[-1]})
    n_td = 0
    for case in typedef_cases(tier):
        n_td += 1
        for sig, msg in check_typedef(case):
            col.add(sig, msg, {"typedef": case})
        if n_td == 50:
            col.sample({"typedef": case})
    n_join = 0
    for ln in range(0, 5):
        for seq in itertools.product("CA", repeat=ln):
            n_join += 1
            for sig, msg in check_join(list(seq)):
                col.add(sig, msg, {"join": list(seq)})
    n_cont = 0
    for kind in ("array", "list", "sarray"):
        for e in specs:
            if e[0] in ("R", "Poly"):
                continue
            n_cont += 1
            for sig, msg in check_container(kind, e):
                col.add(sig, msg, {"container": [kind, e]})
    n_alias = 0
    n_shared = 0
    for nparams in range(1, 3 if tier == "quick" else 4):
        for params in itertools.product(PARAM_KINDS, repeat=nparams):
            idxs = [list(sub) for r in range(0, nparams + 1) for sub in itertools.permutations(range(nparams), r)]
            for bound in [["Explicit", T.C], ["Explicit", T.A]] + [["FromParams", s_] for s_ in idxs]:
                n_shared += 1
                for sig, msg in check_shared_typedef(list(params), bound):
                    col.add(sig, msg, {"shared_typedef": [list(params), bound]})
    total = n + n_td + n_join + n_cont + n_alias + n_shared
    cov = {
        "states": n + n_td,
        "transitions": total,
        "traces_validated_against_impl": total,
        "evaluations": total,
        "distinct_nontrivial": nontriv + n_td + n_cont,
        "rule": "distinct terms of the bounded type grammar (leaves, 1..2 (thorough 3) constructor levels over rows of "
        "length <=2, <=2 (3) variants); every type definition with <=2 (3) params from {Type C, Type A, Nat} x "
        "{Explicit C/A, FromParams over every index list} x every fitting argument list; TypeBound.join on all "
        "sequences up to length 4; Array/List/StaticArray over every element type of the grammar (StaticArray twice on one type object); every "
        "definition also with all argument lists instantiated on one TypeDef object in both orders. non-trivial = "
        "composite or extension type",
        "samples": col.samples,
        "exhaustive": True,
        "types": n,
        "typedef_cases": n_td,
        "join_cases": n_join,
        "container_cases": n_cont,
        "shared_typedef_cases": n_shared,
    }
    return Result(cov, col.violations, ["R5 bound calculus in mc/drivers/terms.py::ref_bound"])


def replay(case) -> list[Violation]:
    if "type" in case:
        out = check_type(case["type"])
    elif "typedef" in case:
        out = check_typedef(case["typedef"])
    elif "join" in case:
        out = check_join(case["join"])
    elif "shared_typedef" in case:
        out = check_shared_typedef(*case["shared_typedef"])
    else:
        out = check_container(*case["container"])
    return [Violation(s, m, case) for s, m in out]
