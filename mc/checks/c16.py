"""C16 - node handles enumerate exactly their operation's value outputs.

E4: finite product (output count n) x (every int / slice / tuple index expression in the
bound), executed on handles returned by Hugr.add_node, compared with range(n) semantics;
plus a census of the handles returned by every builder call form over a row alphabet,
compared with the R3 output-count table."""

from __future__ import annotations

import itertools

from mc.engine.core import Collector, Result, Violation

BOUNDS = {"quick": dict(nmax=11, steps=(None, 1, 2, 3)), "thorough": dict(nmax=14, steps=(None, 1, 2, 3, 5, 7))}


def _mk_handle(n):
    from hugr import ops
    from hugr.hugr import Hugr

    h = Hugr()
    node = h.add_node(ops.Custom("x"), h.root, n)
    return h, node


def _expected_slice(n, start, stop, step):
    for b in (start, stop):
        if b is not None and b < -n:
            return IndexError
    return list(range(n)[start:stop:step])


def _eval(f):
    try:
        return ("ok", f())
    except Exception as e:  # noqa: BLE001
        return ("exc", type(e))


def check_index_case(n, kind, expr):
    """One (handle, index expression) case. Returns list of (sig, msg)."""
    from hugr.hugr.node_port import OutPort

    h, node = _mk_handle(n)
    fails = []
    if kind == "int":
        i = expr
        exp = _eval(lambda: range(n)[i])
        got = _eval(lambda: node[i])
        if exp[0] == "ok":
            if got != ("ok", OutPort(node, exp[1])):
                fails.append((f"int:{'neg' if i < 0 else 'pos'}-in-range", f"n={n}: node[{i}] -> {got}, expected OutPort offset {exp[1]}"))
        else:
            if got != ("exc", IndexError):
                fails.append((f"int:{'neg' if i < 0 else 'pos'}-out-of-range", f"n={n}: node[{i}] -> {got}, expected IndexError"))
    elif kind == "slice":
        start, stop, step = expr
        exp = _expected_slice(n, start, stop, step)
        got = _eval(lambda: [p.offset for p in node[slice(start, stop, step)]])
        got_nodes = _eval(lambda: all(p.node == node and isinstance(p, OutPort) for p in node[slice(start, stop, step)]))
        if exp is IndexError:
            if got != ("exc", IndexError):
                fails.append(("slice:below-minus-n", f"n={n}: node[{start}:{stop}:{step}] -> {got}, expected IndexError"))
        else:
            if got != ("ok", exp) or got_nodes != ("ok", True):
                shape = "overflow" if any(b is not None and b > n for b in (start, stop)) else "in-range"
                fails.append((f"slice:{shape}", f"n={n}: node[{start}:{stop}:{step}] -> {got}, expected offsets {exp}"))
    elif kind == "tuple":
        exp = _eval(lambda: [range(n)[i] for i in expr])
        got = _eval(lambda: [p.offset for p in node[tuple(expr)]])
        if exp[0] == "ok" and got != exp:
            fails.append(("tuple", f"n={n}: node[{tuple(expr)}] -> {got}, expected {exp}"))
        if exp[0] == "exc" and got != ("exc", IndexError):
            fails.append(("tuple:out-of-range", f"n={n}: node[{tuple(expr)}] -> {got}, expected IndexError"))
    elif kind == "iter":
        for name, f in (("iter", lambda: list(node)), ("outputs", lambda: list(node.outputs())), ("full-slice", lambda: list(node[:]))):
            got = _eval(f)
            if got != ("ok", [OutPort(node, i) for i in range(n)]):
                fails.append((f"{name}", f"n={n}: {name} -> {got}"))
        if node.out_port() != OutPort(node, 0):
            fails.append(("out_port", f"out_port() = {node.out_port()}"))
        # the graph's own child listing carries the same count
        for c in h.children():
            if c.idx == node.idx and _eval(lambda: len(list(c))) != ("ok", n):
                fails.append(("children-handle", f"n={n}: handle from children() iterates {_eval(lambda: len(list(c)))}"))
    return fails


def check_unknown():
    from hugr import ops
    from hugr.hugr import Hugr
    from hugr.hugr.node_port import Node, OutPort

    fails = []
    h = Hugr()
    for node in (h.add_node(ops.Custom("x")), Node(5)):
        for i in range(0, 6):
            if _eval(lambda: node[i]) != ("ok", OutPort(node, i)):
                fails.append(("unknown:int", f"node[{i}] on a handle without count -> {_eval(lambda: node[i])}"))
        for name, f in (("iter", lambda: list(node)), ("outputs", lambda: list(node.outputs())), ("full-slice", lambda: list(node[:]))):
            if _eval(f) != ("exc", ValueError):
                fails.append((f"unknown:{name}", f"{name} on a handle without count -> {_eval(f)}, expected ValueError"))
        if node.out_port() != OutPort(node, 0):
            fails.append(("unknown:out_port", "out_port() is not output 0"))
    return fails


def history_cases(depth):
    """All add_node(count)/delete_node histories up to `depth` over <=3 live non-root nodes."""
    counts = [None, 0, 2, 3]

    def rec(hist, live):
        yield hist
        if len(hist) == depth:
            return
        if len(live) < 3:
            for c in counts:
                yield from rec([*hist, ["add", c]], live + [len(hist)])
        for i in range(len(live)):
            yield from rec([*hist, ["del", i]], live[:i] + live[i + 1 :])

    yield from rec([], [])


def check_history(hist):
    """Handles returned by the graph after deletions / index reuse carry exactly the count they were
    created with (or none)."""
    from hugr import ops
    from hugr.hugr import Hugr
    from hugr.hugr.node_port import OutPort

    h = Hugr()
    live = []
    fails = []
    for step, ev in enumerate(hist):
        if ev[0] == "add":
            n = h.add_node(ops.Custom(f"h{step}"), h.root, ev[1])
            live.append(n)
            reused = "reused-index" if any(e[0] == "del" for e in hist[:step]) else "fresh-index"
            if ev[1] is None:
                r = _eval(lambda: list(n))
                if r != ("exc", ValueError):
                    fails.append((f"history:{reused}:unknown-count-iterates", f"{hist[: step + 1]}: handle created without a count iterates {r}"))
                r = _eval(lambda: n[5])
                if r != ("ok", OutPort(n, 5)):
                    fails.append((f"history:{reused}:unknown-count-index", f"{hist[: step + 1]}: handle[5] -> {r}"))
            else:
                r = _eval(lambda: list(n))
                if r != ("ok", [OutPort(n, i) for i in range(ev[1])]):
                    fails.append((f"history:{reused}:count", f"{hist[: step + 1]}: handle created with count {ev[1]} iterates {r}"))
            kids = [c for c in h.children() if c.idx == n.idx]
            if len(kids) != 1:
                fails.append(("history:children", f"{hist[: step + 1]}: children() lists the new node {len(kids)} times"))
            elif ev[1] is not None and _eval(lambda: len(list(kids[0]))) != ("ok", ev[1]):
                fails.append((f"history:{reused}:children-handle", f"{hist[: step + 1]}: children() handle iterates {_eval(lambda: len(list(kids[0])))}, expected {ev[1]}"))
        else:
            h.delete_node(live.pop(ev[1]))
    return fails


def check_eq_hash():
    from hugr.hugr.node_port import InPort, Node, OutPort

    fails = []
    variants = lambda i: [Node(i), Node(i, {"m": 1}), Node(i, {}, 3), Node(i, {"z": 2}, 0)]  # noqa: E731
    n = 0
    for i, j in itertools.product(range(3), repeat=2):
        for a, b in itertools.product(variants(i), variants(j)):
            for oa, ob in itertools.product(range(-1, 3), repeat=2):
                for P in (OutPort, InPort):
                    n += 1
                    pa, pb = P(a, oa), P(b, ob)
                    same = (i, oa) == (j, ob)
                    if (pa == pb) != same:
                        fails.append(("port-eq", f"{pa!r} == {pb!r} is {pa == pb}, expected {same}"))
                    if same and hash(pa) != hash(pb):
                        fails.append(("port-hash", f"hash({pa!r}) != hash of an equal port"))
                    if same and len({pa, pb}) != 1:
                        fails.append(("port-set", "equal ports are distinct set members"))
            if (a == b) != (i == j) or (i == j and hash(a) != hash(b)):
                fails.append(("node-eq", f"{a!r} vs {b!r} equality/hash ignores or depends on non-index fields"))
    return fails, n


# ----------------------------------------------------------------------------- builder census
def builder_cases(tier):
    """(name, thunk) pairs; each thunk builds a small graph and returns [(label, handle, expected_n)]."""
    from hugr import ops, tys, val
    from hugr.build.cfg import Cfg
    from hugr.build.cond_loop import Conditional, TailLoop
    from hugr.build.dfg import Dfg
    from hugr.build.function import Module
    from hugr.build.tracked_dfg import TrackedDfg
    from hugr.std.int import INT_T, DivMod, IntVal
    from hugr.std.logic import Not

    B, Q = tys.Bool, tys.Qubit
    rows = [[], [B], [B, Q], [Q, B, B]] + ([[B, B, Q, B]] if tier == "thorough" else [])
    cases = []

    def add(name, f):
        cases.append((name, f))

    for row in rows:
        k = len(row)

        def mk_simple(row=row, k=k):
            d = Dfg(*row)
            out = []
            ins = d.inputs()
            out.append(("input_node", d.input_node, k))
            t = d.add_op(ops.MakeTuple(), *ins)
            out.append(("add_op(MakeTuple)", t, 1))
            u = d.add(ops.UnpackTuple()(t))
            out.append(("add(UnpackTuple)", u, k))
            (u2,) = d.extend(ops.MakeTuple()(*u))
            out.append(("extend(MakeTuple)", u2, 1))
            u3 = d.add_op(ops.UnpackTuple(), u2)
            out.append(("add_op(UnpackTuple)", u3, k))
            d.set_outputs(*u3)
            out.append(("Dfg builder after set_outputs", d, k))
            out.append(("Dfg.parent_node", d.parent_node, k))
            return out

        add(f"dfg-tuple-{k}", mk_simple)

        def mk_nested(row=row, k=k):
            d = Dfg(*row)
            with d.add_nested(*d.inputs()) as n:
                n.set_outputs(*n.inputs())
            out = [("add_nested builder", n, k), ("add_nested.parent_node", n.parent_node, k)]
            inner = Dfg(*row)
            inner.set_outputs(*inner.inputs())
            ins = d.insert_nested(inner, *n)
            out.append(("insert_nested", ins, k))
            d.set_outputs(*ins)
            return out

        add(f"nested-{k}", mk_nested)

        def mk_cfg(row=row, k=k):
            d = Dfg(*row)
            with d.add_cfg(*d.inputs()) as c:
                with c.add_entry() as e:
                    e.set_single_succ_outputs(*e.inputs())
                c.branch_exit(e[0])
            out = [("add_cfg builder", c, k), ("add_cfg.parent_node", c.parent_node, k), ("block builder", e, 1)]
            c2 = Cfg(*row)
            with c2.add_entry() as e2:
                e2.set_single_succ_outputs(*e2.inputs())
            c2.branch_exit(e2[0])
            out.append(("Cfg builder", c2, k))
            ins = d.insert_cfg(c2, *c)
            out.append(("insert_cfg", ins, k))
            d.set_outputs(*ins)
            return out

        add(f"cfg-{k}", mk_cfg)

        def mk_cond(row=row, k=k):
            d = Dfg(B, *row)
            cw, *rest = d.inputs()
            with d.add_conditional(cw, *rest) as c:
                for i in range(2):
                    with c.add_case(i) as cs:
                        cs.set_outputs(*cs.inputs())
            out = [("add_conditional builder", c, k), ("add_conditional.parent_node", c.parent_node, k)]
            c2 = Conditional(B, list(row))
            for i in range(2):
                with c2.add_case(i) as cs:
                    cs.set_outputs(*cs.inputs())
            out.append(("Conditional builder", c2, k))
            cw2 = d.load(val.TRUE)
            out.append(("load(value)", cw2, 1))
            ins = d.insert_conditional(c2, cw2, *c)
            out.append(("insert_conditional", ins, k))
            d.set_outputs(*ins)
            return out

        add(f"cond-{k}", mk_cond)

        def mk_cond_refused(row=row, k=k):
            """The first case fixes the outputs; a second case with another output row is refused, and the handles
            still enumerate the outputs the Conditional operation has."""
            c2 = Conditional(B, list(row))
            with c2.add_case(0) as cs:
                cs.set_outputs(*cs.inputs(), cs.load(val.TRUE))
            cs1 = c2.add_case(1)
            try:
                cs1.set_outputs(*cs1.inputs())  # one output fewer: must be refused
            except Exception:  # noqa: BLE001
                pass
            n = c2.parent_op.num_out
            return [("Conditional builder after a refused case", c2, n), ("Conditional.parent_node after a refused case", c2.parent_node, n)]

        add(f"cond-refused-{k}", mk_cond_refused)

        def mk_if(row=row, k=k):
            d = Dfg(B, *row)
            cw, *rest = d.inputs()
            with d.add_if(cw, *rest) as if_:
                if_.set_outputs(*if_.inputs())
            with if_.add_else() as el:
                el.set_outputs(*el.inputs())
            out = [("if.conditional_node", el.conditional_node, k)]
            d.set_outputs(*el.conditional_node)
            return out

        add(f"if-{k}", mk_if)

        for jo in ([], [B], [B, B]):

            def mk_loop(row=row, k=k, jo=jo):
                d = Dfg(*row)
                with d.add_tail_loop([], d.inputs()) as tl:
                    vs = [tl.load(val.TRUE) for _ in jo]
                    tag = tl.add_op(ops.Tag(1, tys.Sum([[], list(jo)])), *vs)
                    tl.set_loop_outputs(tag, *tl.inputs())
                n = len(jo) + k
                out = [("add_tail_loop builder", tl, n), ("add_tail_loop.parent_node", tl.parent_node, n), ("add_op(Tag)", tag, 1)]
                tl2 = TailLoop([], list(row))
                vs = [tl2.load(val.TRUE) for _ in jo]
                tag2 = tl2.add_op(ops.Tag(1, tys.Sum([[], list(jo)])), *vs)
                tl2.set_loop_outputs(tag2, *tl2.inputs())
                out.append(("TailLoop builder", tl2, n))
                ins = d.insert_tail_loop(tl2, [], list(tl)[len(jo):])
                out.append(("insert_tail_loop", ins, n))
                d.set_outputs(*list(ins)[len(jo):])
                return out

            add(f"loop-{k}-{len(jo)}", mk_loop)

    def mk_ext():
        d = Dfg(B, INT_T, INT_T)
        b, i, j = d.inputs()
        n = d.add(Not(b))
        dm = d.add(DivMod(i, j))
        no = d.add_op(ops.Noop(), n)
        lc = d.load(IntVal(3, 5))
        t = TrackedDfg(B, B, track_inputs=True)
        tn = t.add(Not(0))
        (tn2,) = t.extend(Not(1))
        t.set_tracked_outputs()
        d.set_outputs(no, *dm, lc)
        return [("add(Not)", n, 1), ("add(DivMod)", dm, 2), ("add_op(Noop)", no, 1), ("load(IntVal)", lc, 1),
                ("TrackedDfg.add", tn, 1), ("TrackedDfg.extend", tn2, 1), ("TrackedDfg builder", t, 2)]

    add("ext-ops", mk_ext)

    # calls: monomorphic over rows, polymorphic, and row-polymorphic with arity-changing instantiation
    for row in rows:
        k = len(row)

        def mk_call(row=row, k=k):
            m = Module()
            f = m.define_function("f", list(row))
            f.set_outputs(*f.inputs())
            g = m.define_function("g", list(row))
            c = g.call(f, *g.inputs())
            lf = g.load_function(f)
            ci = g.add_op(ops.CallIndirect(), lf, *c)
            g.set_outputs(*ci)
            return [("call(mono)", c, k), ("add_op(CallIndirect)", ci, k),
                    ("define_function builder(fn port)", f.parent_node, None)]

        add(f"call-mono-{k}", mk_call)

    def mk_call_poly():
        m = Module()
        T = tys.Variable(0, tys.TypeBound.Copyable)
        f = m.define_function("id", [T], [T], type_params=[tys.TypeTypeParam(tys.TypeBound.Copyable)])
        f.set_outputs(*f.inputs())
        g = m.define_function("g", [B])
        c = g.call(f, *g.inputs(), instantiation=tys.FunctionType([B], [B]), type_args=[B.type_arg()])
        g.set_outputs(*c)
        return [("call(poly)", c, 1)]

    add("call-poly", mk_call_poly)

    for inst_row in rows:

        def mk_call_rowpoly(inst_row=inst_row):
            m = Module()
            R = tys.RowVariable(0, tys.TypeBound.Any)
            sig = tys.PolyFuncType([tys.ListParam(tys.TypeTypeParam(tys.TypeBound.Any))], tys.FunctionType([R], [R]))
            f = m.declare_function("rp", sig)
            g = m.define_function("g", list(inst_row))
            arg = tys.SequenceArg([t.type_arg() for t in inst_row])
            c = g.call(f, *g.inputs(), instantiation=tys.FunctionType(list(inst_row), list(inst_row)), type_args=[arg])
            g.set_outputs(*c)
            return [("call(row-poly)", c, len(inst_row))]

        add(f"call-rowpoly-{len(inst_row)}", mk_call_rowpoly)
    return cases


def check_builder_case(name, thunk):
    from hugr.hugr.node_port import OutPort

    fails = []
    try:
        handles = thunk()
    except Exception as e:  # noqa: BLE001
        import traceback

        return [(f"builder:{name.split('-')[0]}:raised", f"{name}: building raised {type(e).__name__}: {e}\n{traceback.format_exc(limit=3)}")], 0
    n = 0
    for label, hd, exp in handles:
        if exp is None:
            continue
        n += 1
        got = _eval(lambda: [p for p in hd])
        node = hd.to_node()
        if got != ("ok", [OutPort(node, i) for i in range(exp)]):
            shown = got if got[0] == "exc" else [p.offset for p in got[1]]
            fails.append((f"builder-handle:{label}", f"{name}: handle from {label} iterates {shown}, expected {exp} outputs"))
        if exp > 0 and _eval(lambda: hd[-1]) != ("ok", OutPort(node, exp - 1)):
            fails.append((f"builder-handle:{label}:neg-index", f"{name}: handle[-1] -> {_eval(lambda: hd[-1])}, expected offset {exp - 1}"))
        if _eval(lambda: hd[exp]) != ("exc", IndexError):
            fails.append((f"builder-handle:{label}:overflow", f"{name}: handle[{exp}] -> {_eval(lambda: hd[exp])}, expected IndexError"))
    return fails, n


def index_cases(tier):
    b = BOUNDS[tier]
    for n in range(0, b["nmax"] + 1):
        rng = range(-n - 2, n + 3)
        yield (n, "iter", None)
        for i in rng:
            yield (n, "int", i)
        bounds = [None, *rng]
        for start, stop, step in itertools.product(bounds, bounds, b["steps"]):
            yield (n, "slice", (start, stop, step))
        for tup in itertools.product(range(-n - 1, n + 2), repeat=2):
            yield (n, "tuple", list(tup))


def run(tier: str, seed: int) -> Result:
    col = Collector()
    n_cases = 0
    nontrivial = set()
    for n, kind, expr in index_cases(tier):
        n_cases += 1
        if n > 0:
            nontrivial.add((n, kind, repr(expr)))
        for sig, msg in check_index_case(n, kind, expr):
            col.add(sig, msg, {"index": [n, kind, expr]})
        if n == 2 and kind == "slice" and len(col.samples) < 4:
            col.sample({"n": n, "slice": expr})
    for sig, msg in check_unknown():
        col.add(sig, msg, {"unknown": True})
    n_hist = 0
    for hist in history_cases(4 if tier == "quick" else 6):
        n_hist += 1
        for sig, msg in check_history(hist):
            col.add(sig, msg, {"history": hist})
    eqf, n_eq = check_eq_hash()
    for sig, msg in eqf:
        col.add(sig, msg, {"eq": True})
    n_handles = 0
    bc = builder_cases(tier)
    for name, thunk in bc:
        fails, n = check_builder_case(name, thunk)
        n_handles += n
        for sig, msg in fails:
            col.add(sig, msg, {"builder": name, "tier": tier})
    col.sample({"builder_case": bc[0][0]})
    total = n_cases + n_eq + n_handles + n_hist + 1
    cov = {
        "states": len(nontrivial) + n_handles,
        "transitions": total,
        "traces_validated_against_impl": total,
        "evaluations": total,
        "distinct_nontrivial": len(nontrivial) + n_handles,
        "rule": "finite product: every output count n<=nmax x every int in [-n-2,n+2], every slice with start/stop in "
        "{None}+[-n-2,n+2] and step in the step set, every 2-tuple; handles without count; equality/hash over handle "
        "variants; plus every builder call form over a row alphabet with R3's expected output count. non-trivial = n>0 or "
        "a builder-returned handle",
        "samples": col.samples,
        "exhaustive": True,
        "index_cases": n_cases,
        "add_delete_histories": n_hist,
        "eq_hash_cases": n_eq,
        "builder_scenarios": len(bc),
        "builder_handles_checked": n_handles,
        "bounds": {"nmax": BOUNDS[tier]["nmax"], "steps": [s for s in BOUNDS[tier]["steps"]]},
    }
    return Result(cov, col.violations, ["range(n) is the reference for index/slice semantics", "step <= 0 is outside the property"])


def replay(case) -> list[Violation]:
    out = []
    if "index" in case:
        n, kind, expr = case["index"]
        if kind == "slice":
            expr = tuple(expr)
        out = check_index_case(n, kind, expr)
    elif "history" in case:
        out = check_history(case["history"])
    elif "unknown" in case:
        out = check_unknown()
    elif "eq" in case:
        out = check_eq_hash()[0]
    elif "builder" in case:
        for name, thunk in builder_cases(case.get("tier", "thorough")):
            if name == case["builder"]:
                out = check_builder_case(name, thunk)[0]
    return [Violation(s, m, case) for s, m in out]
