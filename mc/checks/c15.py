"""C15 - index-based (tracked) wiring is equivalent to explicit wiring.

E1: all call sequences of the tracked builder (track_wire / track_wires / track_inputs /
untrack_wire / add / extend with mixed int and wire arguments and metadata /
set_indexed_outputs / set_tracked_outputs) up to a depth bound, in lock-step with a plain Dfg
driven with explicit wires resolved through a reference list[Wire | None]."""

from __future__ import annotations

import itertools
from collections import Counter

from mc.engine import e1
from mc.engine.core import Collector, Result, Violation, permuted

BOUNDS = {"quick": dict(width=2, depth={False: 4, True: 3}, track_inputs=(False, True)), "thorough": dict(width=2, depth={False: 5, True: 4}, track_inputs=(False, True))}


def _wire_key(w):
    p = w.out_port()
    return (p.node.idx, p.offset)


class S:
    def __init__(self, t, d, ti):
        self.t, self.d = t, d  # tracked builder, twin plain builder
        self.ref = [(_wire_key(w)) for w in d.inputs()] if ti else []  # reference tracked list of (node idx, offset) | None
        self.wires = [_wire_key(w) for w in d.inputs()]  # all wires produced so far (same keys in both hugrs)
        self.done = False
        self.n = 0
        self.cmds = {}  # the same Command object is handed to the builder whenever a command repeats


def dump(h):
    nodes = {}
    for n in h:
        dd = h[n]
        nodes[n.idx] = (repr(dd.op), dd.parent.idx if dd.parent else None, tuple(c.idx for c in h.children(n)), repr(sorted(dd.metadata.items())))
    links = Counter((s.node.idx, s.offset, t.node.idx, t.offset) for s, t in h.links())
    return nodes, links


class Machine:
    def __init__(self, width, ti, seed=0):
        self.width, self.ti, self.seed = width, ti, seed

    def initial(self):
        from hugr.build.dfg import Dfg
        from hugr.build.tracked_dfg import TrackedDfg
        from hugr.std.int import INT_T

        row = [INT_T] * self.width
        return S(TrackedDfg(*row, track_inputs=self.ti), Dfg(*row), self.ti)

    def enabled(self, s):
        if s.done:
            return []
        evs = []
        live = [i for i, w in enumerate(s.ref) if w is not None][-3:]
        recent = s.wires[-2:]
        args = [["i", i] for i in live] + [["w", list(w)] for w in recent]
        for w in recent:
            evs.append(["track_wire", list(w)])
        if len(recent) >= 2 and not s.ref:
            evs.append(["track_wires", [list(w) for w in recent[:2]]])
        if len(s.ref) <= 2:
            evs.append(["track_inputs"])
        for i in range(max(0, len(s.ref) - 2), len(s.ref) + 1):
            evs.append(["untrack_wire", i])  # freed and out-of-range indices included (IndexError expected)
        for k, a in enumerate(args):
            evs.append(["add", "Noop", [a], k == 0])
        for a, b in itertools.product(args, repeat=2):
            evs.append(["add", "DivMod", [a, b], a[0] == "w" and b[0] == "i"])
        if len(args) >= 2:
            evs.append(["extend", [["Noop", [args[0]]], ["DivMod", [args[0], args[1]]]]])
            evs.append(["extend", [["DivMod", [args[-1], args[0]]], ["Noop", [args[0]]]]])
        evs.append(["add", "Noop", [["i", len(s.ref)]], False])
        if args:
            # a good command followed by one that must be refused: the first one has happened, the index it used is rebound
            evs.append(["extend", [["Noop", [args[0]]], ["Noop", [["i", len(s.ref)]]]]])
        for k in (1, 2):
            for combo in itertools.product(args[:3], repeat=k):
                evs.append(["set_indexed_outputs", list(combo)])
        evs.append(["set_tracked_outputs"])
        return permuted(evs, self.seed, "c15")

    def _op(self, name):
        from hugr import ops
        from hugr.std.int import DivMod

        return ops.Noop() if name == "Noop" else DivMod

    def _resolve(self, s, a, which):
        """Arguments for the tracked builder (ints stay ints) and for the twin (explicit wires)."""
        from hugr.hugr.node_port import Node, OutPort

        if a[0] == "i":
            if which == "tracked":
                return a[1]
            i = a[1]
            if i >= len(s.ref) or s.ref[i] is None:
                raise IndexError(i)
            k = s.ref[i]
            return OutPort(Node(k[0]), k[1])
        return OutPort(Node(a[1][0]), a[1][1])

    def step(self, s, ev, light=False):
        fails = []
        kind = ev[0]
        t, d = s.t, s.d
        s.n += 1

        def both(ft, fd):
            """Runs the tracked call and the reference; returns (tracked result, ref result) or records an exception mismatch."""
            try:
                rt = ("ok", ft())
            except Exception as e:  # noqa: BLE001
                rt = ("exc", type(e).__name__)
            try:
                rd = ("ok", fd())
            except IndexError:
                rd = ("exc", "IndexError")
            if rt[0] != rd[0] or (rt[0] == "exc" and rt[1] != rd[1]):
                fails.append((f"{kind}:exception", f"{ev}: tracked builder -> {rt}, reference -> {rd if rd[0] == 'exc' else 'ok'}"))
                return None
            return rt, rd

        if kind == "track_wire":
            k = tuple(ev[1])
            r = both(lambda: t.track_wire(self._resolve(s, ["w", k], "tracked")), lambda: len(s.ref))
            if r and r[0][0] == "ok":
                if r[0][1] != len(s.ref):
                    fails.append(("track_wire:index", f"{ev}: returned index {r[0][1]}, expected {len(s.ref)}"))
                s.ref.append(k)
        elif kind == "track_wires":
            ks = [tuple(x) for x in ev[1]]
            r = both(lambda: t.track_wires([self._resolve(s, ["w", k], "tracked") for k in ks]), lambda: list(range(len(s.ref), len(s.ref) + len(ks))))
            if r and r[0][0] == "ok":
                if r[0][1] != r[1][1]:
                    fails.append(("track_wires:indices", f"{ev}: returned {r[0][1]}, expected {r[1][1]}"))
                s.ref += ks
        elif kind == "track_inputs":
            ins = [_wire_key(w) for w in d.inputs()]
            r = both(lambda: t.track_inputs(), lambda: list(range(len(s.ref), len(s.ref) + len(ins))))
            if r and r[0][0] == "ok":
                if r[0][1] != r[1][1]:
                    fails.append(("track_inputs:indices", f"returned {r[0][1]}, expected {r[1][1]}"))
                s.ref += ins
        elif kind == "untrack_wire":
            i = ev[1]

            def ref_untrack():
                if i >= len(s.ref) or s.ref[i] is None:
                    raise IndexError(i)
                return s.ref[i]

            r = both(lambda: t.untrack_wire(i), ref_untrack)
            if r and r[0][0] == "ok":
                if _wire_key(r[0][1]) != r[1][1]:
                    fails.append(("untrack_wire:returned", f"{ev}: returned {_wire_key(r[0][1])}, expected {r[1][1]}"))
                s.ref[i] = None
        elif kind in ("add", "extend"):
            coms = [[ev[1], ev[2], ev[3]]] if kind == "add" else [[c[0], c[1], False] for c in ev[1]]

            def command(name, args):
                key = repr((name, args))
                if key not in s.cmds:
                    s.cmds[key] = self._op(name)(*[self._resolve(s, a, "tracked") for a in args])
                return s.cmds[key]

            def tracked_call():
                if kind == "add":
                    name, args, md = coms[0]
                    kw = {"metadata": {"md": [s.n, "é"]}} if md else {}
                    return [t.add(command(name, args), **kw)]
                return t.extend(*[command(name, args) for name, args, _ in coms])

            def ref_call():
                # validate every lookup first (a failing command adds nothing in the reference)
                out = []
                for name, args, md in coms:
                    wires = [self._resolve(s, a, "twin") for a in args]
                    kw = {"metadata": {"md": [s.n, "é"]}} if md else {}
                    n = d.add(self._op(name)(*wires), **kw)
                    out.append(n)
                    for p, a in enumerate(args):
                        if a[0] == "i":
                            s.ref[a[1]] = (n.idx, p)
                    nout = 1 if name == "Noop" else 2
                    for o in range(nout):
                        s.wires.append((n.idx, o))
                return out

            r = both(tracked_call, ref_call)
            if r and r[0][0] == "ok":
                if [n.idx for n in r[0][1]] != [n.idx for n in r[1][1]]:
                    fails.append((f"{kind}:nodes", f"{ev}: tracked builder added nodes {[n.idx for n in r[0][1]]}, explicit builder {[n.idx for n in r[1][1]]}"))
            elif r and r[0][0] == "exc":
                partial = kind == "extend" and len(coms) == 2 and coms[1][1] == [["i", len(s.ref)]]
                if not partial:
                    s.done = True  # an IndexError may leave a half-added node behind: nothing is demanded about that state
                # (a refused *second* command of an extend is different: its lookups fail before anything is added, and
                # the first command has been carried out in both builders - the comparison below applies)
        elif kind == "set_indexed_outputs":
            r = both(lambda: t.set_indexed_outputs(*[self._resolve(s, a, "tracked") for a in ev[1]]), lambda: d.set_outputs(*[self._resolve(s, a, "twin") for a in ev[1]]))
            s.done = True
        elif kind == "set_tracked_outputs":
            from hugr.hugr.node_port import Node, OutPort

            r = both(lambda: t.set_tracked_outputs(), lambda: d.set_outputs(*[OutPort(Node(k[0]), k[1]) for k in s.ref if k is not None]))
            s.done = True
        else:
            raise AssertionError(ev)
        if fails or light:
            return fails
        got = [(_wire_key(w) if w is not None else None) for w in t.tracked]
        if got != s.ref and not (s.done and kind in ("add", "extend")):
            fails.append((f"{kind}:tracked-list", f"after {ev}: tracked = {got}, reference list = {s.ref}"))
        if s.done and kind.startswith("set_"):
            (n1, l1), (n2, l2) = dump(t.hugr), dump(d.hugr)
            if l1 != l2:
                fails.append((f"{kind}:links", f"HUGRs differ in links: tracked-only={dict(l1 - l2)} explicit-only={dict(l2 - l1)}"))
            if n1 != n2:
                diff = [i for i in set(n1) | set(n2) if n1.get(i) != n2.get(i)]
                what = "metadata" if all(i in n1 and i in n2 and n1[i][:3] == n2[i][:3] for i in diff) else "nodes"
                fails.append((f"{kind}:{what}", f"HUGRs differ at nodes {diff}: tracked {[n1.get(i) for i in diff][:2]} explicit {[n2.get(i) for i in diff][:2]}"))
            # the finished graphs serialize to the same document (op reprs hide the rows of Input/Output/DFG)
            def _doc(h):
                try:
                    return ("ok", h.to_json())
                except Exception as e:  # noqa: BLE001
                    return ("exc", type(e).__name__)

            j1, j2 = _doc(t.hugr), _doc(d.hugr)
            if j1 != j2 and not fails:
                what = "serialization-raised" if j1[0] != j2[0] else "document"
                fails.append((f"{kind}:{what}", f"after {ev}: tracked builder's HUGR serializes to {str(j1)[:160]}, the explicit one to {str(j2)[:160]}"))
        elif not s.done and kind in ("add", "extend"):
            # incremental comparison of the two graphs (only these calls touch the HUGR)
            (n1, l1), (n2, l2) = dump(t.hugr), dump(d.hugr)
            if l1 != l2 or n1 != n2:
                diff = [i for i in set(n1) | set(n2) if n1.get(i) != n2.get(i)]
                what = "links" if l1 != l2 else ("metadata" if all(i in n1 and i in n2 and n1[i][:3] == n2[i][:3] for i in diff) else "nodes")
                fails.append((f"{kind}:{what}", f"after {ev} the two HUGRs differ ({what}): nodes {diff}, links tracked-only={dict(l1 - l2)} explicit-only={dict(l2 - l1)}"))
        return fails

    def canon(self, s):
        n, l = dump(s.d.hugr)
        return (tuple(s.ref), tuple(sorted(n.items())), tuple(sorted(l.items())), s.done)

    def outcome(self, s, ev):
        return (ev[0], s.done, len(s.ref))


def run(tier: str, seed: int) -> Result:
    b = BOUNDS[tier]
    col = Collector()
    tot = dict(states=0, transitions=0, outcomes=set())
    per = {}
    for ti in b["track_inputs"]:
        m = Machine(b["width"], ti, seed)
        st = e1.explore(m, b["depth"][ti], col, sig_prefix="")
        tot["states"] += st.states
        tot["transitions"] += st.transitions
        tot["outcomes"] |= st.outcomes
        per[f"track_inputs={ti}"] = {"states": st.states, "transitions": st.transitions, "per_depth": st.per_depth}
    for v in col.violations:
        v.case["tier"] = tier
        v.case.setdefault("track_inputs", None)
    cov = {
        "states": tot["states"],
        "transitions": tot["transitions"],
        "traces_validated_against_impl": tot["transitions"],
        "evaluations": tot["transitions"],
        "distinct_nontrivial": tot["states"] - 2,
        "rule": "state = (reference tracked list, twin HUGR dump); every call of the tracked builder's API over int/wire argument mixes "
        "(same index twice, freed and out-of-range indices, metadata) is executed on TrackedDfg and mirrored on a plain Dfg with explicit "
        "wires; after every call the tracked list and both HUGRs (nodes, links, metadata) are compared",
        "samples": col.samples or [[["track_inputs"], ["add", "Noop", [["i", 0]], True]]],
        "exhaustive": True,
        "bounds": {"width": b["width"], "depth": {str(k): v for k, v in b["depth"].items()}},
        "per_configuration": per,
        "distinct_outcomes": len(tot["outcomes"]),
    }
    return Result(cov, col.violations, ["reference: list[Wire|None] + plain Dfg twin", "after a failing lookup nothing is demanded about the tracked builder's state"])


def replay(case) -> list[Violation]:
    b = BOUNDS[case.get("tier", "quick")]
    out = []
    for ti in b["track_inputs"]:
        m = Machine(b["width"], ti)
        try:
            s, fails = e1.replay(m, case["history"])
        except Exception:  # noqa: BLE001  the history belongs to the other configuration
            continue
        out += [Violation(sig, msg, case) for sig, msg in fails]
    return out
