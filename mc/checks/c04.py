"""C04 - the HUGR graph store agrees with a sequential port-multigraph model.

Engine E1: breadth-first over all histories of store mutations within the bounds below;
after every event every public query is compared with the R1 model."""

from __future__ import annotations

from mc.drivers.store import ORDER, compare_store
from mc.engine import e1
from mc.engine.core import Collector, Result, Violation, permuted
from mc.ref.portgraph import PortGraph

BOUNDS = {
    # max live nodes incl. root, max links, BFS depth, root usable as link endpoint, requested out counts
    "quick": dict(max_nodes=3, max_links=3, depth=5, root_links=False, req=(None, 3), inserts=("one", "reused")),
    "thorough": dict(max_nodes=4, max_links=3, depth=5, root_links=True, req=(None, 3), inserts=("one", "dfg", "reused"), mixed="first"),  # mixed="all" at this depth is beyond 10M states
}
OFFS = (0, 1)


def _mk_fragment(name):
    """Small hugrs used as insert_hugr arguments (fresh objects on every call)."""
    from hugr import ops
    from hugr.hugr import Hugr

    if name == "one":
        h = Hugr(ops.Custom("frag_one"))
        desc = {"nodes": [(0, None, "frag_one")], "links": []}
        return h, desc
    if name == "reused":
        # a fragment with a history: an index was freed and taken again, so the child order (b, c) is not
        # the index order (c=1, b=2) and no free index is left
        h = Hugr(ops.Custom("frag_root"))
        a = h.add_node(ops.Custom("frag_a"), h.root, 1)
        b = h.add_node(ops.Custom("frag_b"), h.root, 1, metadata={"k": 2})
        h.delete_node(a)
        c = h.add_node(ops.Custom("frag_c"), h.root, 1)
        h.add_link(b.out(0), c.inp(0))
        return h, None
    h = Hugr(ops.Custom("frag_root"))
    a = h.add_node(ops.Custom("frag_a"), h.root, 2, metadata={"k": 1})
    b = h.add_node(ops.Custom("frag_b"), h.root)
    h.add_link(a.out(0), b.inp(0))
    h.add_link(a.out(0), b.inp(1))
    h.add_order_link(a, b)
    return h, None


class S:
    def __init__(self, h, ref):
        self.h = h
        self.ref = ref
        self.serial = 0
        self.last = None
        self.seen = {0}  # every index that was ever live (dead handles = seen - live)


class Machine:
    def __init__(self, max_nodes, max_links, depth, root_links, req, inserts, seed=0, raw_order=True, mixed="first"):
        self.mixed = mixed  # links between an order port and a value port: only as the first link ("first") or always ("all")
        self.raw_order = raw_order
        self.max_nodes, self.max_links, self.root_links = max_nodes, max_links, root_links
        self.req, self.inserts, self.seed = req, inserts, seed

    def initial(self):
        from hugr.hugr import Hugr

        h = Hugr()
        ref = PortGraph(h[h.root].op)
        return S(h, ref)

    # ------------------------------------------------------------------ menu
    def enabled(self, s):
        ref = s.ref
        live = sorted(ref.nodes)
        ends = [n for n in live if self.root_links or n != ref.root]
        evs = []
        if len(live) < self.max_nodes:
            for p in live:
                for r in self.req:
                    evs.append(["add_node", p, r])
                evs.append(["add_const", p])
            # parent omitted: defaults to the root
            evs.append(["add_node", None, None])
            evs.append(["add_const", None])
        if len(ref.links) < self.max_links:
            for a in ends:
                for b in ends:
                    for so in OFFS:
                        for do in OFFS:
                            evs.append(["add_link", a, so, b, do])
                    evs.append(["add_order", a, b])
                    if self.raw_order:
                        evs.append(["add_link", a, ORDER, b, ORDER])  # an order link added as a plain link (may repeat)
                        # "arbitrary ports": a link between an order port and a value port is accepted by add_link
                        if self.mixed == "all" or not ref.links:
                            evs.append(["add_link", a, ORDER, b, 0])
                            evs.append(["add_link", a, 1, b, ORDER])
        for a in ends:
            for b in ends:
                for so in OFFS:
                    for do in OFFS:
                        evs.append(["del_link", a, so, b, do])
                evs.append(["del_link", a, ORDER, b, ORDER])
        for n in live:
            if n != ref.root and not ref.nodes[n].children:
                evs.append(["del_node", n])
        for name in self.inserts:
            size = 1 if name == "one" else 3
            if len(live) + size <= self.max_nodes + (0 if name == "one" else 1):
                for p in live:
                    evs.append(["insert", name, p])
        # stale handles: calls that name a deleted node must be refused and leave the store as it was
        dead = sorted(s.seen - set(live))
        if dead:
            d, a = dead[0], live[-1]
            evs += [["stale", "add_node", d], ["stale", "add_const", d], ["stale", "link_from", d, a], ["stale", "link_to", a, d],
                    ["stale", "order", a, d], ["stale", "del_node", d], ["stale", "insert", d]]
        return permuted(evs, self.seed, "c04ev")

    def outcome(self, s, ev):
        return (ev[0], len(s.ref.nodes), len(s.ref.links))

    # ------------------------------------------------------------------ transition
    def step(self, s, ev, light=False):
        from hugr import ops, val
        from hugr.hugr.node_port import InPort, Node, OutPort

        h, ref = s.h, s.ref
        kind = ev[0]
        fails = []
        s.serial += 1
        if kind == "stale":
            _, what, *args = ev
            calls = {
                "add_node": lambda d: h.add_node(ops.Custom("stale"), Node(d)),
                "add_const": lambda d: h.add_const(val.TRUE, Node(d)),
                "link_from": lambda d, a: h.add_link(OutPort(Node(d), 0), InPort(Node(a), 0)),
                "link_to": lambda a, d: h.add_link(OutPort(Node(a), 0), InPort(Node(d), 0)),
                "order": lambda a, d: h.add_order_link(Node(a), Node(d)),
                "del_node": lambda d: h.delete_node(Node(d)),
                "insert": lambda d: h.insert_hugr(_mk_fragment("one")[0], Node(d)),
            }
            try:
                calls[what](*args)
                fails.append((f"stale-handle:{what}:accepted", f"{ev}: a call naming the deleted node {args} returned normally"))
            except Exception:  # noqa: BLE001
                pass
            # whatever was raised, the store must still agree with the (unchanged) model
            fails += [(f"stale-handle:{what}:{sig}", msg) for sig, msg in compare_store(h, ref, OFFS, ctx="after-refused-call")]
            return fails
        try:
            if kind == "add_node":
                _, p, r = ev
                op = ops.Custom(f"n{s.serial}")
                n = h.add_node(op, Node(p), r) if p is not None else h.add_node(op, num_outs=r)
                if n.idx in ref.nodes:
                    return [("add_node:index-live", f"add_node returned live index {n.idx}")]
                ref.add_node(n.idx, p if p is not None else ref.root, op, r)
            elif kind == "add_const":
                _, p = ev
                n = h.add_const(val.TRUE, Node(p)) if p is not None else h.add_const(val.TRUE)
                if n.idx in ref.nodes:
                    return [("add_const:index-live", f"add_const returned live index {n.idx}")]
                ref.add_node(n.idx, p if p is not None else ref.root, h[n].op, None)
                if not isinstance(h[n].op, ops.Const):
                    fails.append(("add_const:op", f"add_const produced {h[n].op!r}"))
            elif kind == "add_link":
                _, a, so, b, do = ev
                h.add_link(OutPort(Node(a), so), InPort(Node(b), do))
                ref.add_link(a, so, b, do)
            elif kind == "add_order":
                _, a, b = ev
                before = ref.count(a, ORDER, b, ORDER)
                h.add_order_link(Node(a), Node(b))
                now = sum(1 for p in h.linked_ports(OutPort(Node(a), ORDER)) if p.node.idx == b and p.offset == ORDER)
                # repeated add_order_link of one pair: reported once or as often as added
                if before and now == before:
                    pass
                else:
                    ref.add_link(a, ORDER, b, ORDER)
            elif kind == "del_link":
                _, a, so, b, do = ev
                h.delete_link(OutPort(Node(a), so), InPort(Node(b), do))
                ref.delete_link(a, so, b, do)
            elif kind == "del_node":
                _, n = ev
                rn = ref.nodes[n]
                w = h.delete_node(Node(n))
                ref.delete_node(n)
                if w is None or (w.op is not rn.op and w.op != rn.op):
                    fails.append(("del_node:return", f"delete_node({n}) returned {w!r}, expected data of {rn.op!r}"))
            elif kind == "insert":
                _, name, p = ev
                frag, _ = _mk_fragment(name)
                fnodes = [(n.idx, d.parent.idx if d.parent else None, d.op, dict(d.metadata)) for n, d in frag.nodes()]
                fchildren = {n.idx: [c.idx for c in frag.children(n)] for n in frag}
                flinks = [(a.node.idx, a.offset, b.node.idx, b.offset) for a, b in frag.links()]
                fouts = {n.idx: frag.num_out_ports(n) for n in frag}
                mapping = h.insert_hugr(frag, Node(p))
                m = {k.idx: v.idx for k, v in mapping.items()}
                # the inserted HUGR is a store like any other: no operation was performed on it, its queries answer as before
                if ([(n.idx, d.parent.idx if d.parent else None, d.op, dict(d.metadata)) for n, d in frag.nodes()] != fnodes
                        or {n.idx: [c.idx for c in frag.children(n)] for n in frag} != fchildren
                        or [(a.node.idx, a.offset, b.node.idx, b.offset) for a, b in frag.links()] != flinks):
                    fails.append(("insert:source-modified", f"{ev}: the inserted HUGR answers its queries differently after insert_hugr (children {fchildren} -> { {n.idx: [c.idx for c in frag.children(n)] for n in frag} })"))
                if sorted(m) != sorted(i for i, *_ in fnodes) or len(set(m.values())) != len(m):
                    return [("insert:mapping", f"insert_hugr mapping {m} is not a bijection from the inserted nodes")]
                if any(v in ref.nodes for v in m.values()):
                    return [("insert:index-live", f"insert_hugr reused a live index: {m}")]
                # parent first, children in the fragment's child order
                order = []

                def walk(i):
                    order.append(i)
                    for c in fchildren[i]:
                        walk(c)

                walk(frag.root.idx)
                byidx = {i: (par, op, md) for i, par, op, md in fnodes}
                for i in order:
                    par, op, md = byidx[i]
                    ref.add_node(m[i], p if par is None else m[par], op, fouts[i] or None, md)
                for a, so, b, do in flinks:
                    ref.add_link(m[a], so, m[b], do)
            else:  # pragma: no cover
                raise AssertionError(ev)
        except Exception as e:  # noqa: BLE001
            import traceback

            tb = traceback.extract_tb(e.__traceback__)[-1]
            return [(f"{kind}:raised:{type(e).__name__}", f"{ev} raised {type(e).__name__}: {e} at {tb.name}:{tb.lineno}")]
        s.seen |= set(ref.nodes)
        if not light:
            fails += compare_store(h, ref, OFFS, ctx=f"after-{kind}")
        return fails

    def canon(self, s):
        """Model state + the order in which the implementation lists each port's links (delete_link
        addresses links by position) + reported counts + a destructive probe of the free list (the
        state object is discarded after canonicalisation)."""
        from hugr import ops
        from hugr.hugr.node_port import InPort, Node, OutPort

        h, ref = s.h, s.ref
        per_port = []
        for idx in sorted(ref.nodes):
            n = Node(idx)
            for off in (*OFFS, ORDER):
                per_port.append(tuple((p.node.idx, p.offset) for p in h.linked_ports(OutPort(n, off))))
                per_port.append(tuple((p.node.idx, p.offset) for p in h.linked_ports(InPort(n, off))))
            per_port.append((h.num_in_ports(n), h.num_out_ports(n)))
        nodes = tuple(
            sorted((i, n.parent, tuple(n.children), n.req_outs, type(n.op).__name__) for i, n in ref.nodes.items())
        )
        probe = tuple(h.add_node(ops.Custom("probe")).idx for _ in range(2))
        return (nodes, tuple(sorted(ref.links)), tuple(per_port), probe)


def run(tier: str, seed: int) -> Result:
    b = BOUNDS[tier]
    m = Machine(**b, seed=seed)
    col = Collector()
    st = e1.explore(m, max_depth=b["depth"], col=col)
    for v in col.violations:
        v.case["tier"] = tier
    cov = {
        "states": st.states,
        "transitions": st.transitions,
        "traces_validated_against_impl": st.transitions,
        "evaluations": st.transitions,
        "distinct_nontrivial": st.states - 1,
        "rule": "state = canonical (model nodes/links, per-port link order, reported port counts, free-list probe); "
        "every enabled store event (add_node/add_const/add_link/add_order_link/delete_link present+absent/"
        "delete_node(leaf)/insert_hugr) is executed on the real Hugr from every state up to the depth bound and all "
        "queries are compared with the R1 model; non-trivial = not the initial state",
        "samples": col.samples or [[["add_node", 0, None]]],
        "exhaustive": True,
        "bounds": {k: (list(v) if isinstance(v, tuple) else v) for k, v in b.items()},
        "depth_completed": st.depth_completed,
        "new_states_per_depth": st.per_depth,
        "state_space_closed": st.closed,
        "distinct_outcomes": len(st.outcomes),
    }
    return Result(
        cov,
        col.violations,
        [
            "R1 model in mc/ref/portgraph.py",
            "listing order within a port and num_incoming/num_outgoing are not part of the oracle",
            "a repeated add_order_link of one pair may be reported once or as often as added",
        ],
    )


def replay(case) -> list[Violation]:
    b = BOUNDS[case.get("tier", "thorough")]
    m = Machine(**b)
    s, fails = e1.replay(m, case["history"])
    return [Violation(sig, msg, case) for sig, msg in fails]
