"""C03 - emitted documents conform to the published wire format.

E2 o E1: every complete builder program of the (reduced) scenario plan followed by every store
mutation history up to the depth bound (delete / add / insert / order link / delete link /
metadata / index reuse).  Oracles: (1) the published strict JSON schema, (2) index sanity per
R2's reader, (3) port addressing: the emitted edge multiset equals the in-memory links mapped
through R2's port layout (order port = #value + #static of the operation) and the expected
renumbering (index order, no node before its parent)."""

from __future__ import annotations

import json
from collections import Counter

from mc.drivers import bpm, ladder, mutate
from mc.drivers.scenarios import SCENARIOS
from mc.engine import e2
from mc.engine.core import Collector, Result, Violation, pmap
from mc.ref import hugrjson as H
from mc.ref import schema as S

PLAN = {
    "quick": ([("D3", 2), ("C2", 2), ("M5", 2), ("D1", 2), ("D2", 2), ("D0", 2), ("C1", 2), ("L1", 2), ("G1", 2), ("M1", 2), ("M2", 2)], 1),
    # thorough = two phases (3 free calls x every single mutation, then 2 free calls x every pair of mutations): 3 free calls x
    # pairs of mutations would be ~30 times the first phase (hours)
    "thorough": ([("D3", 2), ("C2", 3), ("K1", 2), ("M5", 2), ("D1", 3), ("D2", 2), ("D0", 2), ("C1", 3), ("L1", 3), ("G1", 2), ("M1", 3), ("M2", 2)], 1),
    "thorough-2": ([("D3", 2), ("C2", 2), ("M5", 2), ("D1", 2), ("D2", 2), ("D0", 2), ("C1", 2), ("L1", 2), ("G1", 2), ("M1", 2), ("M2", 2)], 2),
}
_DEPTH = 1
_TIER = "quick"
#: second thorough phase (pairs of mutations): the first mutation is one of each of these kinds, the second any
PHASE2_KINDS = ("del", "deladd", "insert", "order", "meta", "reuse", "addnode", "dellink")


def canonical_numbering(h):
    """Numbering of the live nodes that depends on the hierarchy only (pre-order walk along the
    child lists), so that two HUGRs can be compared whatever their node indices are."""
    order, pos = [], {}
    stack = [h.root]
    while stack:
        n = stack.pop()
        pos[n.idx] = len(order)
        order.append(n)
        stack.extend(reversed(h.children(n)))
    return order, pos


def doc_mapping(h, d):
    """in-memory index -> position in the document, derived the way a reader rebuilds the
    hierarchy: node 0 is the root and the k-th listed node with parent p is the k-th child of p.
    Independent of the order the writer chose.  Returns (pos, error)."""
    kids = {}
    for i in range(1, len(d.nodes)):
        kids.setdefault(d.parent[i], []).append(i)
    pos = {h.root.idx: 0}
    at = {0: h.root}
    todo = [0]
    while todo:
        p = todo.pop()
        mem = h.children(at[p])
        docs = kids.get(p, [])
        if len(mem) != len(docs):
            return None, f"node at position {p} has {len(docs)} children in the document but {len(mem)} in memory"
        for c, i in zip(mem, docs):
            pos[c.idx] = i
            at[i] = c
            todo.append(i)
    return pos, None


def enc_op_raw(op):
    import hugr._serialization.ops as sops
    from hugr.hugr.node_port import Node

    return json.loads(sops.OpType(root=op._to_serial(Node(0))).model_dump_json())


def check_doc(h, doc, tag):
    """tag distinguishes plain programs from mutated ones in signatures."""
    fails = []
    for m in S.hugr_errors(doc)[:2]:
        fails.append((f"schema:{tag}", f"document violates the published strict schema: {m}"))
    d, errs = H.read(doc)
    for rule, m in errs[:2]:
        if rule in ("V01", "V02"):
            fails.append((f"index:{rule}:{tag}", m))
    if d is None:
        return fails
    if len(d.nodes) != len(h):
        fails.append((f"nodes:count:{tag}", f"{len(d.nodes)} nodes emitted for {len(h)} live nodes"))
        return fails
    pos, why = doc_mapping(h, d)
    if pos is None or len(pos) != len(h):
        fails.append((f"index:hierarchy:{tag}", f"the document's hierarchy is not the HUGR's: {why or 'some nodes are unreachable from node 0'}"))
        return fails
    for n in h:
        got = {k: v for k, v in d.nodes[pos[n.idx]].items() if k != "parent"}
        exp = {k: v for k, v in json.loads(json.dumps(enc_op_raw(h[n].op))).items() if k != "parent"}
        if got != exp:
            fails.append((f"nodes:op-at-position:{tag}", f"in-memory node {n.idx} ({type(h[n].op).__name__}) is not the node emitted at its hierarchy position {pos[n.idx]}"))
            break
    # port addressing
    exp = Counter()
    static_bad = None
    inside = True
    for s, t in h.links():
        a, b = pos[s.node.idx], pos[t.node.idx]
        la, lb = d.layouts[a], d.layouts[b]
        so = s.offset if s.offset >= 0 else la.order_off("out")
        to = t.offset if t.offset >= 0 else lb.order_off("in")
        if so is None or to is None or la.kind("out", so) is None or lb.kind("in", to) is None:
            inside = False  # a link outside the ports its operations have: clause (3) does not apply
            break
        exp[(a, so, b, to)] += 1
        if la.sout is not None and s.offset == 0 and lb.sin is not None and to != len(lb.vin):
            static_bad = (a, so, b, to, len(lb.vin))
    if inside:
        got = Counter((e[0][0], e[0][1], e[1][0], e[1][1]) for e in doc["edges"])
        if got != exp:
            extra, missing = got - exp, exp - got
            kind = "order" if any(d.layouts[k[0]].order_off("out") in (k[1],) or d.layouts[k[2]].order_off("in") == k[3] for k in list(extra) + list(missing)) else "value"
            fails.append((f"ports:{kind}-edge-offset:{tag}", f"emitted edges differ from the links mapped through the port layout: extra={dict(extra)} missing={dict(missing)}"))
        if static_bad:
            a, so, b, to, n = static_bad
            fails.append((f"ports:static-port:{tag}", f"static edge {a}:{so}->{b}:{to} does not attach right after the {n} value inputs"))
    md = doc.get("metadata")
    if md is not None and len(md) not in (0, len(d.nodes)):
        fails.append((f"metadata:length:{tag}", f"metadata list has {len(md)} entries for {len(d.nodes)} nodes"))
    return fails


def oracle(sc, ctx, program):
    from hugr.package import Package

    out = []

    def factory():
        return bpm.run(sc, program).hugr

    n = 0
    for hist, h in mutate.histories(factory, _DEPTH, _TIER, kinds=PHASE2_KINDS if _DEPTH >= 2 else None):
        n += 1
        tag = "+".join(m[0] for m in hist) or "built"
        try:
            doc = json.loads(h.to_json())
        except Exception as e:  # noqa: BLE001
            out.append((f"to_json-raised:{tag}", f"to_json raised {type(e).__name__}: {e} | history={hist}"))
            continue
        for sig, msg in check_doc(h, doc, tag):
            out.append((sig, f"{msg} | history={hist}"))
        if not hist and sc.root == "module":
            try:
                pdoc = json.loads(Package([h], [])._to_serial().model_dump_json())
                for m in S.package_errors(pdoc)[:2]:
                    out.append(("schema:package", f"package document violates the schema: {m}"))
                if pdoc["modules"][0]["nodes"] != doc["nodes"] or pdoc["modules"][0]["edges"] != doc["edges"]:
                    out.append(("package:module-differs", "module inside the package document differs from Hugr.to_json()"))
            except Exception as e:  # noqa: BLE001
                out.append(("package:raised", f"{type(e).__name__}: {e}"))
    # the other origin: the loaded copy of the built HUGR, mutated (first mutation of each kind), is written again
    for hist, l in mutate.loaded_histories(factory, _TIER):
        if l is None:
            continue  # C02 reports a mutation the loaded copy refuses
        n += 1
        tag = "loaded+" + hist[1][0]
        try:
            doc = json.loads(l.to_json())
        except Exception as e:  # noqa: BLE001
            out.append((f"to_json-raised:{tag}", f"to_json raised {type(e).__name__}: {e} | history={hist}"))
            continue
        for sig, msg in check_doc(l, doc, tag):
            out.append((sig, f"{msg} | history={hist}"))
    ctx.c03_docs = n
    return [(s, f"{m} | program={program}") for s, m in out]


def check_extensions():
    """Extension documents: every bundled std extension + small hand-built ones."""
    import hugr.std.collections.array  # noqa: F401
    import hugr.std.collections.list  # noqa: F401
    import hugr.std.collections.static_array  # noqa: F401
    import hugr.std.float  # noqa: F401
    import hugr.std.int  # noqa: F401
    import hugr.std.logic  # noqa: F401
    import hugr.std.prelude  # noqa: F401
    from hugr import ext, std, tys, val
    from hugr.package import Package

    fails = []
    exts = [std.PRELUDE, hugr.std.int.INT_TYPES_EXTENSION, hugr.std.int.INT_OPS_EXTENSION, hugr.std.int.CONVERSIONS_EXTENSION,
            hugr.std.float.FLOAT_TYPES_EXTENSION, hugr.std.float.FLOAT_OPS_EXTENSION, hugr.std.logic.EXTENSION,
            hugr.std.collections.array.EXTENSION, hugr.std.collections.list.EXTENSION, hugr.std.collections.static_array.EXTENSION]
    e = ext.Extension("c03.ext", ext.Version(1, 2, 3), {"prelude"})
    td = e.add_type_def(ext.TypeDef("T", "a type", [tys.TypeTypeParam(tys.TypeBound.Any), tys.BoundedNatParam(None)], ext.FromParamsBound([0])))
    e.add_type_def(ext.TypeDef("U", "", [], ext.ExplicitBound(tys.TypeBound.Copyable)))
    e.add_op_def(ext.OpDef("op", ext.OpDefSig(tys.PolyFuncType([tys.TypeTypeParam(tys.TypeBound.Any)], tys.FunctionType([tys.Variable(0, tys.TypeBound.Any)], [td.instantiate([tys.Variable(0, tys.TypeBound.Any).type_arg(), tys.BoundedNatArg(1)])]))), "desc", {"m": [1]}))
    e.add_op_def(ext.OpDef("bin", ext.OpDefSig(None, True), "binary"))
    e.add_extension_value(ext.ExtensionValue("v", val.Tuple(val.TRUE)))
    exts.append(e)
    exts.append(ext.Extension("c03.empty", ext.Version(0, 0, 1)))
    n = 0
    for x in exts:
        n += 1
        try:
            doc = json.loads(x.to_json())
        except Exception as ex:  # noqa: BLE001
            fails.append(("extension:to_json-raised", f"{x.name}: {type(ex).__name__}: {ex}"))
            continue
        for m in S.extension_errors(doc)[:2]:
            fails.append(("schema:extension", f"extension {x.name}: {m}"))
    from hugr.build.function import Module

    m = Module()
    pdoc = json.loads(Package([m.hugr, Module().hugr], exts[-2:])._to_serial().model_dump_json())
    for msg in S.package_errors(pdoc)[:2]:
        fails.append(("schema:package", f"package with extensions: {msg}"))
    pdoc = json.loads(Package([], [])._to_serial().model_dump_json())
    for msg in S.package_errors(pdoc)[:2]:
        fails.append(("schema:package", f"empty package: {msg}"))
    return fails, n + 2


LADDER_KINDS = ("deladd", "del", "meta", "order")


def ladder_judge(case):
    """The ladder HUGR as built and after every single store mutation of LADDER_KINDS."""
    out = []
    for hist, h in mutate.histories(lambda: ladder.build(case), 1, "quick", kinds=LADDER_KINDS):
        tag = "+".join(m[0] for m in hist) or "built"
        try:
            doc = json.loads(h.to_json())
        except Exception as e:  # noqa: BLE001
            out.append((f"to_json-raised:{tag}:ladder-{case[0]}", f"to_json raised {type(e).__name__}: {e} | history={hist} | ladder={case}"))
            continue
        for sig, msg in check_doc(h, doc, tag):
            out.append((f"{sig}:ladder-{case[0]}", f"{msg} | history={hist} | ladder={case}"))
    return out


def _ladder_chunk(cases):
    return [(case, ladder_judge(case)) for case in cases]


def run_ladder(tier, col):
    cases = list(ladder.cases_for(tier, leftovers=True))
    for res in pmap(_ladder_chunk, [cases[i::64] for i in range(64)]):
        for case, fails in res:
            for sig, msg in fails:
                col.add(sig, msg, {"ladder": case, "tier": tier})
    return len(cases)


def run(tier: str, seed: int) -> Result:
    global _DEPTH, _TIER
    plan, _DEPTH = PLAN[tier]
    _TIER = tier
    col = Collector()
    r = e2.explore(SCENARIOS, oracle, plan)
    for sig, msg, case in r.fails:
        case["depth"] = _DEPTH
        case["tier"] = tier
        col.add(sig, msg, case)
    if tier == "thorough":
        plan2, _DEPTH = PLAN["thorough-2"]
        r2 = e2.explore(SCENARIOS, oracle, plan2)
        for sig, msg, case in r2.fails:
            case["depth"] = _DEPTH
            case["tier"] = tier
            col.add(sig, msg, case)
        r.states += r2.states
        r.transitions += r2.transitions
        r.complete_programs += r2.complete_programs
        r.nontrivial += r2.nontrivial
        plan = [plan, plan2]
    n_ladder = run_ladder(tier, col)
    efails, n_ext = check_extensions()
    for sig, msg in efails:
        col.add(sig, msg, {"extensions": True})
    cov = {
        "states": r.states,
        "transitions": r.transitions,
        "traces_validated_against_impl": r.transitions,
        "evaluations": r.complete_programs + n_ext + n_ladder,
        "distinct_nontrivial": r.nontrivial,
        "rule": "every complete builder program of the plan x every store-mutation history up to the depth bound; each resulting "
        "document is checked against the published strict schema, R2's index rules and the port-layout image of Hugr.links(); "
        "plus package documents of module programs and extension documents (std + hand-built); plus the size ladders of "
        "mc/drivers/ladder.py, each as built and after every single mutation",
        "samples": r.samples or [{"scenario": "D1", "program": []}],
        "exhaustive": True,
        "plan": plan,
        "mutation_depth": _DEPTH if tier != "thorough" else "phase 1: depth 1 over the 3-free-call plan; phase 2: depth 2 over the 2-free-call plan",
        "complete_programs": r.complete_programs,
        "programs_where_a_builder_call_raised": r.builder_raised,
        "extension_and_package_documents": n_ext,
        "feature_counts": r.features,
        "ladder_cases": n_ladder,
        "ladder": {"families": sorted(ladder.FAMILIES), "sizes": ladder.SIZES[tier], "caps": ladder.CAPS, "mutations": list(LADDER_KINDS)},
    }
    return Result(cov, col.violations, ["published schema specification/schema/hugr_schema_strict_live.json via jsonschema", "R2 port layout: mc/ref/hugrjson.py"])


def replay(case) -> list[Violation]:
    global _DEPTH, _TIER
    if "extensions" in case:
        return [Violation(s, m, case) for s, m in check_extensions()[0]]
    _DEPTH = case.get("depth", 1)
    _TIER = case.get("tier", "quick")
    if "ladder" in case:
        return [Violation(s, m, case) for s, m in ladder_judge(case["ladder"])]
    sc = SCENARIOS[case["scenario"]]
    ctx = bpm.run(sc, case["program"])
    return [Violation(s, m, case) for s, m in oracle(sc, ctx, case["program"])]
