"""C17 - the published JSON schema and the Python codec accept the same documents.

E4 over the schema graph: the four schema files are regenerated from the serialization models
(a) by the repository's own scripts/generate_schema.py run in a dedicated subprocess (its real
sequence strict, lax, strict, lax in one process) and (b) one configuration per fresh process;
every definition reachable through $ref from the roots of the published and of the regenerated
files is compared node by node (a finite graph, closed completely)."""

from __future__ import annotations

import json
import os
import subprocess
import sys
import tempfile

from mc.engine.core import Collector, Result, Violation

FILES = {
    # file prefix -> (root model, strict?)
    "testing_hugr_schema_strict": ("TestingHugr", True),
    "testing_hugr_schema": ("TestingHugr", False),
    "hugr_schema_strict": ("SerialHugr", True),
    "hugr_schema": ("SerialHugr", False),
}

_SINGLE = r"""
import json, sys
from pydantic import ConfigDict
from pydantic.json_schema import models_json_schema
from hugr._serialization.extension import Extension, Package
from hugr._serialization.serial_hugr import SerialHugr
from hugr._serialization.testing_hugr import TestingHugr
root = {"SerialHugr": SerialHugr, "TestingHugr": TestingHugr}[sys.argv[1]]
strict = sys.argv[2] == "1"
cfg = ConfigDict(strict=True, extra="forbid") if strict else ConfigDict(strict=False, extra="allow")
root._pydantic_rebuild(cfg, force=True)
_, top = models_json_schema([(s, "validation") for s in (root, Extension, Package)], title="HUGR schema")
versions = {"serialization_version": __import__("hugr._serialization.serial_hugr", fromlist=["x"]).serialization_version(),
            "SerialHugr": SerialHugr.get_version(), "TestingHugr": TestingHugr.get_version(), "Extension": Extension.get_version(), "Package": Package.get_version()}
json.dump({"schema": top, "versions": versions}, sys.stdout)
"""


_SEQ = r"""
import json, sys
from pydantic import ConfigDict
from pydantic.json_schema import models_json_schema
from hugr._serialization.extension import Extension, Package
from hugr._serialization.serial_hugr import SerialHugr
from hugr._serialization.testing_hugr import TestingHugr
R = {"SerialHugr": SerialHugr, "TestingHugr": TestingHugr}
probe_doc = sys.stdin.read()
refused = []
for item in sys.argv[1:]:
    rn, st = item.split(":")
    root = R[rn]
    if st == "bad":
        # an invalid configuration must be refused; whatever it raises, the valid rebuilds that follow define the schema
        try:
            root._pydantic_rebuild(ConfigDict(strict=True, extra="forbidden"), force=True)
            refused.append(False)
        except Exception:
            refused.append(True)
        continue
    cfg = ConfigDict(strict=True, extra="forbid") if st == "1" else ConfigDict(strict=False, extra="allow")
    root._pydantic_rebuild(cfg, force=True)
_, top = models_json_schema([(s, "validation") for s in (root, Extension, Package)], title="HUGR schema")
probe = None
if st == "0" and rn == "SerialHugr" and probe_doc:
    # the lax decoder accepts a document the published lax schema accepts (one written by hugr-py itself)
    from hugr.hugr import Hugr
    try:
        Hugr.load_json(probe_doc)
        probe = "accepted"
    except Exception as e:
        probe = f"rejected: {type(e).__name__}: {str(e)[:200]}"
json.dump({"schema": top, "probe": probe, "refused": refused}, sys.stdout)
"""


def _probe_doc():
    """A small document with value, order and static edges, written by the library itself (default configuration)."""
    _, env = _env()
    code = ("from hugr import tys, val\nfrom hugr.build.dfg import Dfg\nfrom hugr.std.logic import Not\n"
            "d = Dfg(tys.Bool)\nn = d.add(Not(d.inputs()[0]))\nc = d.load(val.TRUE)\nd.add_state_order(d.input_node, n)\nd.set_outputs(n, c)\nprint(d.hugr.to_json())")
    r = subprocess.run([sys.executable, "-B", "-c", code], env=env, capture_output=True, text=True, timeout=300)
    return r.stdout.strip() if r.returncode == 0 else ""


def histories(maxlen):
    """Every sequence (length 2..maxlen) of (root model, strict?) rebuilds; the schema generated after
    the last one is compared with the published file of that last configuration."""
    import itertools

    confs = [(root, strict) for root, strict in FILES.values()]
    # a refused rebuild (invalid configuration) in front of every single configuration and every pair
    for n in (1, 2):
        for h in itertools.product(confs, repeat=n):
            if h[-1][0] == "TestingHugr" and any(r == "SerialHugr" for r, _ in h):
                continue
            yield ((h[0][0], "bad"), *h)
    for n in range(2, maxlen + 1):
        for h in itertools.product(confs, repeat=n):
            # TestingHugr's rebuild deliberately leaves SerialHugr (nested through function values) in
            # whatever configuration it last had, and the published testing files are generated before
            # SerialHugr is ever rebuilt: a testing schema after a SerialHugr rebuild is outside what
            # the property relates to the published files (see DESIGN section 11).
            if h[-1][0] == "TestingHugr" and any(r == "SerialHugr" for r, _ in h):
                continue
            yield h


_PROBE = None


def run_history(h):
    global _PROBE
    _, env = _env()
    if _PROBE is None:
        _PROBE = _probe_doc()
    args = [f"{r}:{s if s == 'bad' else (1 if s else 0)}" for r, s in h]
    r = subprocess.run([sys.executable, "-B", "-c", _SEQ, *args], env=env, capture_output=True, text=True, timeout=600, input=_PROBE)
    if r.returncode != 0:
        return None, r.stderr[-300:]
    return json.loads(r.stdout), None


def _env():
    repo = os.environ.get("HUGR_REPO", "/repo")
    env = dict(os.environ)
    env["PYTHONPATH"] = os.path.join(repo, "hugr-py", "src")
    env["PYTHONDONTWRITEBYTECODE"] = "1"
    return repo, env


def erase_void(j):
    """Drops keywords that are semantically void in JSON Schema (`additionalProperties: true`)."""
    if isinstance(j, list):
        return [erase_void(x) for x in j]
    if isinstance(j, dict):
        return {k: erase_void(v) for k, v in j.items() if not (k == "additionalProperties" and v is True)}
    return j


def reachable(schema, roots):
    """Definition names reachable from the root definitions through $ref, with the edges."""
    defs = schema.get("$defs", {})
    seen, edges, todo = set(), set(), [r for r in roots if r in defs]
    while todo:
        d = todo.pop()
        if d in seen:
            continue
        seen.add(d)

        def refs(x):
            if isinstance(x, dict):
                for k, v in x.items():
                    if k == "$ref" and isinstance(v, str) and v.startswith("#/$defs/"):
                        yield v[len("#/$defs/") :]
                    else:
                        yield from refs(v)
            elif isinstance(x, list):
                for y in x:
                    yield from refs(y)

        for r in refs(defs[d]):
            edges.add((d, r))
            if r in defs and r not in seen:
                todo.append(r)
    return seen, edges


def diff_paths(a, b, path=""):
    """Keyword paths at which two schema fragments differ (first few)."""
    out = []
    if type(a) != type(b):
        return [path or "/"]
    if isinstance(a, dict):
        for k in sorted(set(a) | set(b)):
            if k not in a or k not in b:
                out.append(f"{path}/{k}")
            elif a[k] != b[k]:
                out += diff_paths(a[k], b[k], f"{path}/{k}")
    elif isinstance(a, list):
        if len(a) != len(b):
            out.append(f"{path}[len {len(a)} vs {len(b)}]")
        else:
            for i, (x, y) in enumerate(zip(a, b)):
                if x != y:
                    out += diff_paths(x, y, f"{path}[{i}]")
    elif a != b:
        out.append(path)
    return out[:6]


def compare(published, generated, fname, how):
    fails = []
    stats = dict(defs=0, edges=0)
    roots = [k for k in ("SerialHugr", "TestingHugr", "Extension", "Package") if k in published.get("$defs", {}) or k in generated.get("$defs", {})]
    p, g = erase_void(published), erase_void(generated)
    pr, pe = reachable(p, roots)
    gr, ge = reachable(g, roots)
    stats["defs"], stats["edges"] = len(pr | gr), len(pe | ge)
    for d in sorted(pr - gr):
        fails.append((f"{how}:{fname}:definition-only-published:{d}", f"{fname}: definition {d} is reachable in the published schema but not in the models' schema"))
    for d in sorted(gr - pr):
        fails.append((f"{how}:{fname}:definition-only-in-models:{d}", f"{fname}: definition {d} is reachable in the models' schema but not in the published file"))
    for d in sorted(pr & gr):
        a, b = p["$defs"][d], g["$defs"][d]
        if a != b:
            paths = diff_paths(a, b)
            kw = sorted({x.strip("/").split("/")[-1].split("[")[0] for x in paths})
            fails.append((f"{how}:{fname}:definition-differs:{d}:{'+'.join(kw)}", f"{fname}: definition {d} differs at {paths}: published {json.dumps(_at(a, paths[0]))[:200]} vs models {json.dumps(_at(b, paths[0]))[:200]}"))
    top_p = {k: v for k, v in p.items() if k != "$defs"}
    top_g = {k: v for k, v in g.items() if k != "$defs"}
    if top_p != top_g:
        fails.append((f"{how}:{fname}:top-level", f"{fname}: top-level keywords differ: {top_p} vs {top_g}"))
    unreach_p = set(p.get("$defs", {})) - pr
    unreach_g = set(g.get("$defs", {})) - gr
    if unreach_p != unreach_g:
        fails.append((f"{how}:{fname}:unreachable-definitions", f"{fname}: definitions outside the roots' closure differ: {sorted(unreach_p ^ unreach_g)}"))
    return fails, stats


def _at(x, path):
    try:
        for part in [q for q in path.replace("[", "/[").split("/") if q]:
            if part.startswith("["):
                if "len" in part:
                    return x
                x = x[int(part[1:-1])]
            else:
                x = x[part]
        return x
    except Exception:  # noqa: BLE001
        return None


def run_all(tier="quick"):
    repo, env = _env()
    pubdir = os.path.join(repo, "specification", "schema")
    fails = []
    total = dict(defs=0, edges=0, files=0)
    versions = None
    # (b) one configuration per fresh process
    single = {}
    for prefix, (root, strict) in FILES.items():
        r = subprocess.run([sys.executable, "-B", "-c", _SINGLE, root, "1" if strict else "0"], env=env, capture_output=True, text=True, timeout=300)
        if r.returncode != 0:
            fails.append((f"generate-single:{prefix}:failed", f"regenerating {prefix} failed: {r.stderr[-400:]}"))
            continue
        out = json.loads(r.stdout)
        single[prefix] = out["schema"]
        versions = out["versions"]
    if versions:
        vs = set(versions.values())
        if len(vs) != 1:
            fails.append(("version:models-disagree", f"version strings of the models disagree: {versions}"))
        v = versions["serialization_version"]
        for prefix in FILES:
            if not os.path.exists(os.path.join(pubdir, f"{prefix}_{v}.json")):
                fails.append((f"version:file-name:{prefix}", f"models have version {v!r} but specification/schema has no {prefix}_{v}.json (has {sorted(os.listdir(pubdir))})"))
        extra = [f for f in os.listdir(pubdir) if f.endswith(".json") and f not in {f"{p}_{v}.json" for p in FILES}]
        if extra:
            fails.append(("version:stale-files", f"published schema files for another version: {extra}"))
    else:
        v = "live"
    # (a) the repository's own generator, its real sequence in one process
    with tempfile.TemporaryDirectory(prefix="c17.") as tmp:
        r = subprocess.run([sys.executable, "-B", os.path.join(repo, "scripts", "generate_schema.py"), tmp], env=env, capture_output=True, text=True, timeout=600)
        scripted = {}
        if r.returncode != 0:
            fails.append(("generate-script:failed", f"scripts/generate_schema.py failed: {r.stderr[-400:]}"))
        else:
            names = sorted(os.listdir(tmp))
            want = sorted(f"{p}_{v}.json" for p in FILES)
            if names != want:
                fails.append(("generate-script:file-names", f"generator wrote {names}, published files are {want}"))
            for prefix in FILES:
                fp = os.path.join(tmp, f"{prefix}_{v}.json")
                if os.path.exists(fp):
                    scripted[prefix] = json.load(open(fp))
    for prefix in FILES:
        pub_path = os.path.join(pubdir, f"{prefix}_{v}.json")
        if not os.path.exists(pub_path):
            continue
        published = json.load(open(pub_path))
        total["files"] += 1
        for how, gen in (("script", scripted.get(prefix)), ("fresh-process", single.get(prefix))):
            if gen is None:
                continue
            f, st = compare(published, gen, prefix, how)
            fails += f
            total["defs"] += st["defs"]
            total["edges"] += st["edges"]
    total["histories"] = 0
    if True:
        from concurrent.futures import ThreadPoolExecutor

        prefix_of = {v: k for k, v in FILES.items()}
        hs = list(histories(4 if tier == "thorough" else 2))
        run_history(hs[0])  # builds the probe document once, before the pool starts
        with ThreadPoolExecutor(max_workers=os.cpu_count() or 4) as ex:
            outs = list(ex.map(run_history, hs))
        for h, (gen, err) in zip(hs, outs):
            total["histories"] += 1
            prefix = prefix_of[h[-1]]
            tag = ">".join(f"{r[0]}{'x' if st == 'bad' else ('s' if st else 'l')}" for r, st in h)
            if gen is None:
                fails.append((f"history:{tag}:failed", f"rebuild history {h} failed: {err}"))
                continue
            if False in gen.get("refused", []):
                fails.append((f"history:{tag}:invalid-config-accepted", f"rebuild history {h}: an invalid configuration (extra='forbidden') was accepted"))
            if gen.get("probe") not in (None, "accepted"):
                fails.append((f"history:{tag}:lax-decoder-rejects", f"rebuild history {h}: after the last (lax) rebuild the decoder rejects a document written by the library that the published lax schema accepts: {gen['probe']}"))
            gen = gen["schema"]
            pub_path = os.path.join(pubdir, f"{prefix}_{v}.json")
            if os.path.exists(pub_path):
                f, st_ = compare(json.load(open(pub_path)), gen, prefix, f"history[{tag}]")
                fails += f
                total["defs"] += st_["defs"]
                total["edges"] += st_["edges"]
    return fails, total, versions


def run(tier: str, seed: int) -> Result:
    col = Collector()
    fails, total, versions = run_all(tier)
    for sig, msg in fails:
        col.add(sig, msg, {"all": True, "tier": tier})
    col.sample({"files": sorted(FILES), "modes": ["scripts/generate_schema.py (strict,lax,strict,lax in one process)", "one configuration per fresh process"]})
    cov = {
        "states": max(1, total["defs"]),
        "transitions": max(1, total["edges"]),
        "traces_validated_against_impl": total["defs"],
        "evaluations": total["defs"],
        "distinct_nontrivial": total["defs"],
        "rule": "state = schema definition reachable through $ref from SerialHugr/TestingHugr/Extension/Package, transition = $ref edge; the graphs of "
        "the 4 published files and of the 4 regenerated schemas (x2 generation modes) are closed completely and compared definition by "
        "definition after erasing `additionalProperties: true`; model version strings vs file names; additionally every history of "
        "2 (thorough 2..4) rebuilds over the 4 (root, strict/lax) configurations in one process (testing schemas only for histories that never rebuilt "
        "SerialHugr), also with a refused rebuild (invalid configuration) in front; schema after the last rebuild vs the published file, and "
        "after a last lax SerialHugr rebuild the decoder must accept a document written by the library",
        "samples": col.samples,
        "exhaustive": True,
        "files_compared": total["files"],
        "rebuild_histories": total["histories"],
        "model_versions": versions,
    }
    return Result(cov, col.violations, ["`additionalProperties: true` is void in JSON Schema (emitted by the installed pydantic for dict[str, Any] fields)", "structural identity of schemas, as the property's quantifier prescribes; no document sampling"])


def replay(case) -> list[Violation]:
    return [Violation(s, m, case) for s, m in run_all(case.get("tier", "quick"))[0]]
