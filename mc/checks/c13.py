"""C13 - builders refuse inconsistent constructions instead of recording them.

E2 + fault enumeration: from every reachable builder-program prefix (state) of the plan, every
applicable *single* inconsistent call of the fault menu is executed on a fresh replay of that
state; the oracle is fail-stop: the call must raise (the documented class where one is
documented).  Plus a finite product for index lookups in the tracked builder."""

from __future__ import annotations

import json

import itertools

from mc.drivers import bpm
from mc.ref.validate import validate
from mc.drivers import terms as T
from mc.drivers.scenarios import SCENARIOS
from mc.engine import e2
from mc.engine.core import Collector, Result, Violation

PLAN = {
    "quick": [("D1", 2), ("D2", 2), ("C1", 3), ("L1", 2), ("G1", 3), ("M1", 2), ("M2", 3), ("M3", 2), ("D3", 2), ("C2", 3), ("M5", 3), ("M6", 3), ("RG", 2), ("RC", 3), ("RF", 2)],
    "thorough": [("D1", 3), ("D2", 3), ("C1", 4), ("L1", 3), ("G1", 3), ("M1", 3), ("M2", 3), ("M3", 3),  # G1 at 4 is 7.7M states, M2 at 4 1.0M
                 ("D3", 3), ("C2", 4), ("M5", 4), ("M6", 4), ("RG", 3), ("RC", 4), ("RF", 3)],
}

DF_KINDS = ("dfg", "func", "case", "loop", "block")


def _enclosing_cfgs(ctx):
    return tuple(next(i for i, c in enumerate(ctx.cfgs) if c is f.info["cfg"]) for f in ctx.frames if f.kind == "cfgholder")


def faults(ctx):
    """[(fault id, expected exception class names, thunk(ctx2))] for the state `ctx`.
    Thunks address everything by wire id / frame position so that they can run on a fresh replay."""
    from hugr import ops

    out = []
    if not ctx.frames:
        return out
    top = ctx.top
    depth = len(ctx.frames) - 1
    if top.kind not in DF_KINDS:
        return out
    in_block = top.kind == "block"
    cur_cfgs = set(_enclosing_cfgs(ctx))

    # ---- F1: wire from a cousin / deeper region
    seen_frames = set()
    for w, kind, cfgs in ctx.dead_info:
        if w.frame_uid in seen_frames:
            continue
        if set(cfgs) & cur_cfgs:
            continue  # source inside an enclosing CFG: dominance is deferred to validation, not a builder error
        if any(f.uid == w.frame_uid for f in ctx.frames):
            continue
        seen_frames.add(w.frame_uid)
        exp = {"NoSiblingAncestor", "NotInSameCfg"} if in_block or cur_cfgs else {"NoSiblingAncestor"}

        def f1(c2, wid=w.id):
            c2.top.b.add_op(ops.Noop(), c2.wires[wid].h)

        out.append((f"foreign-wire:{kind}-into-{top.kind}", exp, f1))

        def f1b(c2, wid=w.id):
            c2.top.b.set_outputs(c2.wires[wid].h)

        if top.kind in ("dfg",):
            out.append((f"foreign-wire:set_outputs:{kind}-into-{top.kind}", exp, f1b))
        if len(seen_frames) >= 3:
            break

    # ---- F2 / F5: outputs that disagree with the established / declared row
    want = top.info.get("want")
    if top.kind in ("case", "func") and want is not None:
        n = 0
        for c in bpm._rows_with(ctx, None, len(want) + 1):
            row = [w.ty for w in c]
            if row == want:
                continue
            n += 1
            shape = "shorter" if len(row) < len(want) else ("longer" if len(row) > len(want) else "type")
            if top.kind == "case":
                out.append((f"case-outputs-disagree:{shape}", {"ConditionalError"}, lambda c2, ids=[w.id for w in c]: c2.top.b.set_outputs(*[c2.wires[i].h for i in ids])))
            else:
                out.append((f"declared-outputs-disagree:{shape}", {"ValueError"}, lambda c2, ids=[w.id for w in c]: c2.top.b.set_outputs(*[c2.wires[i].h for i in ids])))
            if n >= 4:
                break
    # ---- F3: case index out of range / built twice / context left with unbuilt cases
    if top.kind == "case" and top.info.get("style") == "cond":
        nvar = len(top.info["rows"])
        ci = top.info["case_idx"]
        out.append(("case-index-out-of-range", {"ConditionalError"}, lambda c2, k=nvar: c2.top.info["cond"].add_case(k)))
        out.append(("case-index-out-of-range+1", {"ConditionalError"}, lambda c2, k=nvar + 1: c2.top.info["cond"].add_case(k)))
        out.append(("case-built-twice", {"ConditionalError"}, lambda c2, k=ci: c2.top.info["cond"].add_case(k)))
        if ci > 0:
            out.append(("case-built-twice:earlier", {"ConditionalError"}, lambda c2: c2.top.info["cond"].add_case(0)))
        if ci + 1 < nvar:
            out.append(("conditional-exit-with-unbuilt-cases", {"ConditionalError"}, lambda c2: c2.top.info["cond"].__exit__(None, None, None)))
    # ---- F4: exit branch with a different row
    if in_block and top.info["cfg"]["exit_row"] is not None:
        ex = top.info["cfg"]["exit_row"]
        n = 0
        for k in range(0, len(ex) + 2):
            for c in bpm._args_choices(ctx, None, k):
                row = [w.ty for w in c]
                ids = [w.id for w in c]
                if row == ex or not bpm._no_dup_lin(ctx, ids):
                    continue
                n += 1
                shape = "shorter" if len(row) < len(ex) else ("longer" if len(row) > len(ex) else "type")

                def f4(c2, ids=ids):
                    blk = c2.top.b
                    blk.set_single_succ_outputs(*[c2.wires[i].h for i in ids])
                    c2.top.info["cfg"]["b"].branch_exit(blk.parent_node[0])

                out.append((f"exit-branch-disagrees:{shape}", {"MismatchedExit"}, f4))
                if n >= 4:
                    break
            if n >= 4:
                break
    # ---- F6: polymorphic function without a matching instantiation
    for fi, f in enumerate(ctx.funcs):
        if not f["params"] or f["out"] is None or not f["insts"]:
            continue
        targs, irow, orow = f["insts"][0]
        choice = next(iter(bpm._args_choices(ctx, irow, len(irow))), None)
        if choice is not None:
            ids = [w.id for w in choice]
            out.append(("poly-call:no-instantiation", {"NoConcreteFunc"}, lambda c2, fi=fi, ids=ids: c2.top.b.call(c2.funcs[fi]["node"], *[c2.wires[i].h for i in ids])))
            out.append((
                "poly-call:wrong-arg-count", {"NoConcreteFunc"},
                lambda c2, fi=fi, ids=ids, irow=irow, orow=orow, targs=targs: c2.top.b.call(
                    c2.funcs[fi]["node"], *[c2.wires[i].h for i in ids], instantiation=T.build_type(["G", irow, orow, []]),
                    type_args=[T.build_arg(a) for a in targs] + [T.build_arg(["NA", 1])]),
            ))
            out.append((
                "poly-call:no-type-args", {"NoConcreteFunc"},
                lambda c2, fi=fi, ids=ids, irow=irow, orow=orow: c2.top.b.call(
                    c2.funcs[fi]["node"], *[c2.wires[i].h for i in ids], instantiation=T.build_type(["G", irow, orow, []])),
            ))
        out.append(("poly-load:no-instantiation", {"NoConcreteFunc"}, lambda c2, fi=fi: c2.top.b.load_function(c2.funcs[fi]["node"])))
        out.append((
            "poly-load:wrong-arg-count", {"NoConcreteFunc"},
            lambda c2, fi=fi, irow=irow, orow=orow: c2.top.b.load_function(c2.funcs[fi]["node"], instantiation=T.build_type(["G", irow, orow, []]), type_args=[]),
        ))
    # ---- F7: non-function callee, non-dataflow port as a wire
    out.append(("callee-not-a-function:input-node", {"Exception"}, lambda c2: c2.top.b.call(c2.top.b.input_node)))
    out.append(("load-not-a-function:input-node", {"Exception"}, lambda c2: c2.top.b.load_function(c2.top.b.input_node)))
    if len(top.nodes) > 1:
        out.append(("callee-not-a-function:op-node", {"Exception"}, lambda c2: c2.top.b.call(c2.top.nodes[-1])))
    if ctx.funcs:
        out.append(("function-port-as-wire", {"Exception"}, lambda c2: c2.top.b.add_op(ops.Noop(), c2.funcs[0]["node"].out(0))))
        out.append(("function-port-as-output", {"Exception"}, lambda c2: c2.top.b.set_outputs(c2.funcs[0]["node"].out(0))) if top.kind == "dfg" else ("function-port-as-wire:tuple", {"Exception"}, lambda c2: c2.top.b.add_op(ops.MakeTuple(), c2.funcs[0]["node"].out(0))))
    if ctx.funcs:
        from hugr import tys as _tys
        from hugr.std.logic import Not as _Not

        fport = lambda c2: c2.funcs[0]["node"].out(0)  # noqa: E731
        out.append(("function-port-as-wire:fixed-signature-op", {"Exception"}, lambda c2: c2.top.b.add_op(_Not, fport(c2))))
        out.append(("function-port-as-wire:tag", {"Exception"}, lambda c2: c2.top.b.add_op(ops.Tag(0, _tys.Sum([[_tys.Bool], []])), fport(c2))))
        out.append(("function-port-as-wire:insert-input", {"Exception"}, lambda c2: c2.top.b.insert_nested(bpm._frag_dfg(), fport(c2))))
        callable_f = next((f for f in ctx.funcs if f["out"] is not None and not f["params"] and len(f["in"]) == 1), None)
        if callable_f is not None:
            fi = ctx.funcs.index(callable_f)
            out.append(("function-port-as-wire:call-argument", {"Exception"}, lambda c2, fi=fi: c2.top.b.call(c2.funcs[fi]["node"], fport(c2))))
    if "const" in ctx.features:
        def const_port(c2):
            return next(n for n in c2.hugr if isinstance(c2.hugr[n].op, ops.Const)).out(0)

        from hugr.std.logic import Not as _Not2

        out.append(("const-port-as-wire:fixed-signature-op", {"Exception"}, lambda c2: c2.top.b.add_op(_Not2, const_port(c2))))
    if "const" in ctx.features:
        def f7c(c2):
            cn = next(n for n in c2.hugr if isinstance(c2.hugr[n].op, ops.Const))
            c2.top.b.add_op(ops.Noop(), cn.out(0))

        out.append(("const-port-as-wire", {"Exception"}, f7c))
    # ---- F7b: the state-order port (offset -1) of a sibling used as a value wire
    from hugr.hugr.node_port import OutPort as _OutPort

    def _order_src(c2):
        # a sibling with at least one value output: -1 must not be read as "the last output"
        for n in [*reversed(c2.top.nodes), c2.top.b.input_node]:
            try:
                if c2.hugr.num_out_ports(n) >= 1 and n != c2.top.b.output_node:
                    return n
            except Exception:  # noqa: BLE001
                continue
        return None

    if _order_src(ctx) is not None:
        out.append(("order-port-as-wire:add_op", {"Exception"}, lambda c2: c2.top.b.add_op(ops.Noop(), _OutPort(_order_src(c2), -1))))
        out.append(("order-port-as-wire:tuple", {"Exception"}, lambda c2: c2.top.b.add_op(ops.MakeTuple(), _OutPort(_order_src(c2), -1))))
        if top.kind == "dfg":
            out.append(("order-port-as-wire:set_outputs", {"Exception"}, lambda c2: c2.top.b.set_outputs(_OutPort(_order_src(c2), -1))))
    # ---- F8: integer index in an untracked builder
    out.append(("int-in-untracked-builder:add", {"ValueError"}, lambda c2: c2.top.b.add(ops.Noop()(0))))
    out.append(("int-in-untracked-builder:extend", {"ValueError"}, lambda c2: c2.top.b.extend(ops.Noop()(0))))
    vis = ctx.visible()
    if vis:
        out.append(("int-in-untracked-builder:mixed", {"ValueError"}, lambda c2, wid=vis[0].id: c2.top.b.add(ops.MakeTuple()(c2.wires[wid].h, 0))))
    # ---- F9: serializing while an operation is incomplete
    out.append(("serialize-incomplete", {"IncompleteOp"}, lambda c2: c2.hugr.to_json()))
    return out


#: fault families the builders refuse *before* touching the graph.  For these (and only these) the check also
#: demands that building can go on after the refusal.  Other refusals (a wire that cannot be used is only noticed
#: after the node was added, ...) leave a half-added node behind in the pinned code; nothing in the property
#: promises atomicity, so nothing is demanded of them beyond being refused, again and again.
VALIDATE_FIRST = {"declared-outputs-disagree", "callee-not-a-function", "load-not-a-function", "case-built-twice", "case-index-out-of-range",
                  "case-index-out-of-range+1", "conditional-exit-with-unbuilt-cases", "int-in-untracked-builder", "serialize-incomplete",
                  "poly-call", "poly-load"}


#: families applicable in every state: their usable-after-refusal check is left to the thorough tier, which runs it
#: over the quick plan's states (cost: a completion and a validation per state and fault)
EVERYWHERE = {"callee-not-a-function", "load-not-a-function", "int-in-untracked-builder", "serialize-incomplete"}
_TIER = "quick"
_ALL_FAMILIES = False


def state_oracle(sc, ctx, prog):
    out = []
    ctx.dead_info = _dead_info(sc, prog)
    n = 0
    for fid, expected, thunk in faults(ctx):
        n += 1
        c2 = bpm.run(sc, prog)
        mro = set()
        try:
            thunk(c2)
            got = None
        except Exception as e:  # noqa: BLE001
            got = type(e).__name__
            mro = {k.__name__ for k in type(e).__mro__}
        if got is None:
            out.append((f"accepted:{fid}", f"inconsistent call '{fid}' returned normally (expected {sorted(expected)}) | state={prog}"))
            continue
        elif not (mro & expected):
            out.append((f"wrong-error:{fid}:{got}", f"inconsistent call '{fid}' raised {got}, documented error is {sorted(expected)} | state={prog}"))
        # the state after a refusal is a state like any other: the same inconsistent call is refused again
        n += 1
        try:
            thunk(c2)
            out.append((f"accepted-second-time:{fid}", f"inconsistent call '{fid}' was refused once and accepted when repeated | state={prog}"))
            continue
        except Exception:  # noqa: BLE001
            pass
        # refusals that happen before the graph is touched (see VALIDATE_FIRST) leave the builder usable: the
        # program can still be completed and the completed HUGR is valid
        fam = fid.split(":")[0]
        if (fam in VALIDATE_FIRST or fid in VALIDATE_FIRST) and (_ALL_FAMILIES or fam not in EVERYWHERE):
            n += 1
            try:
                if not bpm.complete(c2) and bpm.default_completion(c2) is None:
                    continue
                bad = validate(json.loads(c2.hugr.to_json()))
            except bpm.WellFormednessBug:
                raise
            except Exception as e:  # noqa: BLE001
                out.append((f"unusable-after-refusal:{fid}", f"after the refused call '{fid}' the program can no longer be completed: {type(e).__name__}: {str(e)[:120]} | state={prog}"))
                continue
            if bad:
                out.append((f"invalid-after-refusal:{fid}:{bad[0][0]}", f"after the refused call '{fid}' the completed program is not a valid HUGR: {bad[0][1]} | state={prog}"))
    return out, n


def _dead_info(sc, prog):
    """Replays the prefix recording, for every retired copyable wire, the CFGs that enclosed it."""
    ctx = bpm.start(sc)
    info = []
    seen = 0
    for call in prog:
        cfgs_before = _enclosing_cfgs(ctx)
        bpm.apply(ctx, call)
        for w, kind in ctx.dead[seen:]:
            info.append((w, kind, cfgs_before))
        seen = len(ctx.dead)
    return info


# ------------------------------------------------------------------ tracked builder index lookups
def tracked_cases(tier):
    widths = (0, 1, 2) if tier == "quick" else (0, 1, 2, 3)
    for w in widths:
        for untracked in itertools.chain.from_iterable(itertools.combinations(range(w), r) for r in range(w + 1)):
            for idx in range(0, w + 2):
                if idx < w and idx not in untracked:
                    continue
                for how in ("add", "extend", "set_indexed_outputs", "untrack_wire", "tracked_wire", "add-mixed"):
                    yield [w, list(untracked), idx, how]


def check_tracked(case):
    from hugr import ops, tys
    from hugr.build.tracked_dfg import TrackedDfg

    w, untracked, idx, how = case
    d = TrackedDfg(*([tys.Bool] * w), tys.Bool, track_inputs=False)
    ins = d.inputs()
    for i in range(w):
        d.track_wire(ins[i])
    for u in untracked:
        d.untrack_wire(u)
    try:
        if how == "add":
            d.add(ops.Noop()(idx))
        elif how == "extend":
            d.extend(ops.Noop()(idx))
        elif how == "set_indexed_outputs":
            d.set_indexed_outputs(idx)
        elif how == "untrack_wire":
            d.untrack_wire(idx)
        elif how == "tracked_wire":
            d.tracked_wire(idx)
        else:
            d.add(ops.MakeTuple()(ins[-1], idx))
        got = None
    except Exception as e:  # noqa: BLE001
        got = type(e)
    kind = "freed" if idx < w else "out-of-range"
    if got is None:
        return [(f"accepted:untracked-index:{how}:{kind}", f"TrackedDfg width {w}, untracked {untracked}: {how}({idx}) returned normally, expected IndexError")]
    if not issubclass(got, IndexError):
        return [(f"wrong-error:untracked-index:{how}:{got.__name__}", f"TrackedDfg width {w}, untracked {untracked}: {how}({idx}) raised {got.__name__}, expected IndexError")]
    return []


def run(tier: str, seed: int) -> Result:
    global _TIER, _ALL_FAMILIES
    _TIER = tier
    _ALL_FAMILIES = False
    col = Collector()
    r = e2.explore(SCENARIOS, None, PLAN[tier], state_oracle=state_oracle)
    for sig, msg, case in r.fails:
        case["tier"] = tier
        col.add(sig, msg, case)
    if tier == "thorough":
        # second pass: the states of the quick plan again, this time with the usable-after-refusal check for every family
        _ALL_FAMILIES = True
        r2 = e2.explore(SCENARIOS, None, PLAN["quick"], state_oracle=state_oracle)
        _ALL_FAMILIES = False
        for sig, msg, case in r2.fails:
            case["tier"] = tier
            case["all_families"] = True
            col.add(sig, msg, case)
        r.aux += r2.aux
        r.states += r2.states
        r.transitions += r2.transitions
    n_tr = 0
    for case in tracked_cases(tier):
        n_tr += 1
        for sig, msg in check_tracked(case):
            col.add(sig, msg, {"tracked": case})
    # count the faults executed (re-enumerated cheaply on a sample is not possible: count exactly in a second pass)
    cov = {
        "states": r.states,
        "transitions": r.transitions,
        "traces_validated_against_impl": r.transitions,
        "evaluations": r.aux + n_tr,
        "faulty_calls_executed": r.aux,
        "distinct_nontrivial": r.nontrivial or r.states,
        "rule": "from every reachable builder-program prefix of the plan every applicable single fault of the menu (foreign wire from a "
        "cousin/deeper region, case outputs disagreeing, case index out of range / twice / unbuilt on exit, exit-row mismatch, declared "
        "outputs mismatch, polymorphic call/load without matching instantiation, non-function callee, static or order port as wire, int index in "
        "an untracked builder, serializing an incomplete op) is executed on a fresh replay; plus every (width, untracked set, index, "
        "method) lookup of the tracked builder; oracle = the call raises the documented error, raises again when repeated in the state it "
        "left behind, and - for the fault families the builders refuse before touching the graph - the program can still be completed "
        "to a valid HUGR (R2)",
        "samples": r.samples or [{"scenario": "C1", "program": [["cond", 0, []]]}],
        "exhaustive": True,
        "plan": PLAN[tier],
        "tracked_index_cases": n_tr,
        "feature_counts": r.features,
    }
    return Result(cov, col.violations, ["fail-stop only: nothing is demanded about the state left behind by a rejected call", "negative case indices and non-dominating Dom sources are not in the menu"], level="model_checking")


def replay(case) -> list[Violation]:
    if "tracked" in case:
        return [Violation(s, m, case) for s, m in check_tracked(case["tracked"])]
    global _TIER, _ALL_FAMILIES
    _TIER = case.get("tier", "thorough")
    _ALL_FAMILIES = bool(case.get("all_families"))
    sc = SCENARIOS[case["scenario"]]
    ctx = bpm.run(sc, case["program"])
    return [Violation(s, m, case) for s, m in state_oracle(sc, ctx, case["program"])[0]]
