"""C10 - extension definitions round-trip; bundled standard library matches the spec.

E3/E4: every extension over an alphabet of type definitions, operation definitions, values,
requirements and versions (sizes 0..2) is serialized, loaded and re-serialized; every file under
specification/std_extensions is compared byte-for-byte with the bundled copy, loaded and
round-tripped; every typed helper of hugr.std.* is compared with the definitions in the
specification files (reference: the JSON files themselves + R2's substitution)."""

from __future__ import annotations

import itertools
import json
import os

from mc.drivers import terms as T
from mc.engine.core import Collector, Result, Violation, jleaf, pmap
from mc.ref import hugrjson as H

C, A = T.C, T.A

TYPE_DEFS = [
    ["Tc", "copyable", [], ["Explicit", C]],
    ["Tl", "linéar ✓", [["TP", A]], ["Explicit", A]],
    ["Tp", "", [["NP", None], ["TP", A], ["TP", C]], ["FromParams", [1, 2]]],
    ["Tq", "d", [["NP", 7], ["LP", ["TP", A]], ["SP"]], ["FromParams", []]],
]
G = lambda i, o, r=(): ["G", list(i), list(o), list(r)]  # noqa: E731
OP_DEFS = [
    # name, poly signature | None, binary, description, misc
    ["mono", ["Poly", [], G([T.QB], [T.QB, T.BOOL])], False, "a mono op", {}],
    ["poly", ["Poly", [["TP", A], ["NP", 7]], G([["V", 0, A]], [["V", 0, A], ["int", 3]])], False, "", {"k": [1, None, "é"], "n": {"x": 1.5}}],
    ["binonly", None, True, "binary computed", {}],
    ["both", ["Poly", [["TP", C]], G([["V", 0, C]], [["V", 0, C]])], True, "scheme and binary", {"commutative": True}],
    ["withreqs", ["Poly", [], G([T.BOOL], [T.BOOL], ["prelude", "other.ext"])], False, "already requires others", {}],
    ["rowp", ["Poly", [["LP", ["TP", A]]], G([["R", 0, A]], [["Tuple", [["R", 0, A]]]])], False, "row polymorphic", {}],
]
VALUES = [["v_unit", ["UnitV"]], ["v_tup", ["TupleV", [["TRUE"], ["IntV", 3, 5]]]],
          # values that select an *empty* variant of a sum which also has non-empty ones, and the empty tuple
          ["v_none", ["NoneV", [T.BOOL]]], ["v_left0", ["LeftV", [], [T.BOOL, T.QB]]], ["v_mid", ["Sum", 1, ["Sum", [[T.BOOL], [], [T.UNIT]]], []]],
          ["v_tup0", ["TupleV", []]], ["v_us", ["UnitSum", 2, 3]], ["v_some", ["SomeV", [["FloatV", 1.5]]]], ["v_fn", ["FuncV", "id"]]]
VERSIONS = ["0.1.0", "1.2.3", "0.3.0-rc.1", "2.0.0+build.5", "1.0.0-alpha.2+exp.sha.5114f85"]
REQS = [[], ["prelude"], ["prelude", "a.b.c"]]


def ext_specs(tier):
    k = 2 if tier == "quick" else 3

    def subsets(xs, maxn):
        out = [()]
        for n in range(1, maxn + 1):
            out += list(itertools.permutations(range(len(xs)), n)) if n <= 1 or tier == "thorough" else list(itertools.combinations(range(len(xs)), n))
        return out

    tds = subsets(TYPE_DEFS, 2 if tier == "quick" else 3)
    ods = subsets(OP_DEFS, k)
    vs = [(), (0,), (1,), (0, 1)] + ([(1, 0)] if tier == "thorough" else [])
    nv = len(VALUES)
    # every further value alone (over a reduced definition alphabet), and all of them together
    for j in range(2, nv):
        for td in [(), (1,)]:
            for od in [(), (1,)]:
                yield [list(td), list(od), [j], VERSIONS[j % len(VERSIONS)], REQS[j % len(REQS)]]
    yield [[], [], list(range(nv)), VERSIONS[0], REQS[1]]
    yield [[0], [0], list(reversed(range(nv))), VERSIONS[2], REQS[2]]
    i = 0
    if tier == "thorough":
        # the full version x requirement product over a reduced definition alphabet
        for td in subsets(TYPE_DEFS, 1):
            for od in subsets(OP_DEFS, 1):
                for ver in VERSIONS:
                    for rq in REQS:
                        yield [list(td), list(od), [0], ver, rq]
    for td in tds:
        for od in ods:
            for v in vs:
                yield [list(td), list(od), list(v), VERSIONS[i % len(VERSIONS)], REQS[i % len(REQS)]]
                i += 1


def build_ext(spec, name="c10.ext"):
    from hugr import ext, tys
    from hugr.tys import TypeBound
    from mc.drivers.opterms import build_value

    tds, ods, vs, version, reqs = spec
    e = ext.Extension(name, ext.Version.parse(version), set(reqs))
    B = {"C": TypeBound.Copyable, "A": TypeBound.Any}
    for i in tds:
        nm, desc, params, bound = TYPE_DEFS[i]
        b = ext.ExplicitBound(B[bound[1]]) if bound[0] == "Explicit" else ext.FromParamsBound(list(bound[1]))
        e.add_type_def(ext.TypeDef(nm, desc, [T.build_param(p) for p in params], b))
    for i in ods:
        nm, poly, binary, desc, misc = OP_DEFS[i]
        sig = ext.OpDefSig(T.build_type(poly) if poly is not None else None, binary)
        e.add_op_def(ext.OpDef(nm, sig, desc, json.loads(json.dumps(misc))))
    for i in vs:
        nm, v = VALUES[i]
        e.add_extension_value(ext.ExtensionValue(nm, build_value(v)))
    return e


def snapshot(e):
    """Field-by-field view of an extension object through its public attributes."""
    def enc(x):
        return json.loads(x._to_serial().model_dump_json()) if type(x).__name__ == "PolyFuncType" else json.loads(x._to_serial_root().model_dump_json())

    return {
        "name": e.name,
        "version": str(e.version),
        "runtime_reqs": sorted(e.runtime_reqs),
        "types": {k: {"name": t.name, "description": t.description, "params": [enc(p) for p in t.params], "bound": json.loads(t.bound._to_serial().model_dump_json())} for k, t in e.types.items()},
        "operations": {
            k: {"name": o.name, "description": o.description, "misc": o.misc, "binary": o.signature.binary,
                "signature": (lambda j: {**j, "body": {**j["body"], "runtime_reqs": sorted(j["body"]["runtime_reqs"])}})(enc(o.signature.poly_func)) if o.signature.poly_func is not None else None}
            for k, o in e.operations.items()
        },
        "values": {k: {"name": v.name, "value": enc(v.val)} for k, v in e.values.items()},
    }


def owner_fails(e, tag):
    fails = []
    for k, o in e.operations.items():
        try:
            own = o.get_extension()
        except Exception as ex:  # noqa: BLE001
            fails.append((f"owner:{tag}:no-owner", f"op def {k}: get_extension() raised {type(ex).__name__}"))
            continue
        if own is not e:
            fails.append((f"owner:{tag}:wrong-owner", f"op def {k} reports owner {getattr(own, 'name', own)!r}, held by {e.name!r}"))
        pf = o.signature.poly_func
        if pf is not None and e.name not in pf.body.runtime_reqs:
            shape = "with-other-reqs" if pf.body.runtime_reqs else "empty-reqs"
            fails.append((f"owner:{tag}:requirement-missing:{shape}", f"op def {k}: owning extension {e.name!r} not among its signature's runtime requirements {pf.body.runtime_reqs}"))
    for k, t in e.types.items():
        if t.get_extension() is not e:
            fails.append((f"owner:{tag}:type-def", f"type def {k} does not report its extension"))
    return fails


def norm_doc(d):
    def n(x):
        if isinstance(x, list):
            return [n(y) for y in x]
        if isinstance(x, dict):
            return {k: (sorted(v) if k == "runtime_reqs" and isinstance(v, list) else n(v)) for k, v in x.items()}
        return jleaf(x)

    return n(d)


def check_ext(spec):
    from hugr import ext

    fails = []
    try:
        e = build_ext(spec)
    except Exception as ex:  # noqa: BLE001
        return [("build-raised", f"{spec}: {type(ex).__name__}: {ex}")]
    fails += owner_fails(e, "built")
    try:
        text = e.to_json()
        e2 = ext.Extension.from_json(text)
        text2 = e2.to_json()
    except Exception as ex:  # noqa: BLE001
        return fails + [(f"roundtrip-raised:{type(ex).__name__}", f"{spec}: {type(ex).__name__}: {str(ex)[:200]}")]
    d1, d2 = norm_doc(json.loads(text)), norm_doc(json.loads(text2))
    if d1 != d2:
        keys = [k for k in d1 if d1[k] != d2.get(k)]
        detail = keys
        if "operations" in keys:
            opn = next(k for k in d1["operations"] if d1["operations"][k] != d2["operations"].get(k))
            detail = [f"operations.{f}" for f in d1["operations"][opn] if d1["operations"][opn][f] != d2["operations"].get(opn, {}).get(f)]
        fails.append((f"document-changed:{'+'.join(detail)}", f"{spec}: serialize -> load -> serialize changes {detail}"))
    s1, s2 = snapshot(e), snapshot(e2)
    if s1 != s2:
        for key in s1:
            if s1[key] != s2[key]:
                sub = ""
                if isinstance(s1[key], dict):
                    k0 = next((k for k in s1[key] if s1[key][k] != s2[key].get(k)), None)
                    if k0 is not None and isinstance(s1[key][k0], dict) and isinstance(s2[key].get(k0), dict):
                        sub = "." + "+".join(f for f in s1[key][k0] if s1[key][k0][f] != s2[key][k0].get(f))
                fails.append((f"field-lost:{key}{sub}", f"{spec}: {key} before {str(s1[key])[:200]} after {str(s2[key])[:200]}"))
                break
    fails += owner_fails(e2, "loaded")
    # definitions re-published under another extension (objects that already had an owner)
    e3 = ext.Extension("c10.republished", ext.Version(9, 9, 9))
    for od in list(e.operations.values()):
        e3.add_op_def(od)
    for td in list(e.types.values()):
        e3.add_type_def(td)
    fails += owner_fails(e3, "republished")
    try:
        e4 = ext.Extension.from_json(e3.to_json())
        if norm_doc(json.loads(e4.to_json())) != norm_doc(json.loads(e3.to_json())):
            fails.append(("document-changed:republished", f"{spec}: a re-published extension does not re-serialize to the same document"))
    except Exception as ex:  # noqa: BLE001
        fails.append((f"roundtrip-raised:republished:{type(ex).__name__}", f"{spec}: {str(ex)[:200]}"))
    # histories of one extension object: (a) every operation name first taken by a placeholder definition and then
    # redefined, (b) the caller goes on using the requirement list it built a signature from
    tds, ods, vs, version, reqs = spec
    if ods:
        e5 = ext.Extension("c10.ext", ext.Version.parse(version), set(reqs))
        e6 = ext.Extension("c10.ext", ext.Version.parse(version), set(reqs))
        scratch = []
        for i in ods:
            nm, poly, binary, desc, misc = OP_DEFS[i]
            e5.add_op_def(ext.OpDef(nm, ext.OpDefSig(None, True), "placeholder"))
            e5.add_op_def(ext.OpDef(nm, ext.OpDefSig(T.build_type(poly) if poly is not None else None, binary), desc, json.loads(json.dumps(misc))))
            pf = T.build_type(poly) if poly is not None else None
            if pf is not None:
                scratch.append(pf.body.runtime_reqs)
            e6.add_op_def(ext.OpDef(nm, ext.OpDefSig(pf, binary), desc, json.loads(json.dumps(misc))))
        for lst in scratch:  # the caller's own lists, cleared and refilled for the next use
            lst.clear()
            lst.append("somebody.else")
        for tag, ex_ in (("redefined", e5), ("caller-list-reused", e6)):
            fails += owner_fails(ex_, tag)
            try:
                again = ext.Extension.from_json(ex_.to_json())
                if norm_doc(json.loads(again.to_json())) != norm_doc(json.loads(ex_.to_json())):
                    fails.append((f"document-changed:{tag}", f"{spec}: an extension whose operations were {tag} does not re-serialize to the same document"))
            except Exception as ex:  # noqa: BLE001
                fails.append((f"roundtrip-raised:{tag}:{type(ex).__name__}", f"{spec}: {str(ex)[:200]}"))
    return fails


# ------------------------------------------------------------------ bundled std vs specification
def _walk(root):
    out = {}
    for dp, _, fns in os.walk(root):
        for fn in fns:
            if fn.endswith(".json"):
                p = os.path.join(dp, fn)
                out[os.path.relpath(p, root)] = p
    return out


def check_std_files():
    from hugr import ext

    repo = os.environ.get("HUGR_REPO", "/repo")
    spec = _walk(os.path.join(repo, "specification", "std_extensions"))
    bund = _walk(os.path.join(repo, "hugr-py", "src", "hugr", "std", "_json_defs"))
    fails = []
    for rel in sorted(set(spec) - set(bund)):
        fails.append(("std-files:missing-in-bundle", f"{rel} is published in the specification but not bundled"))
    for rel in sorted(set(bund) - set(spec)):
        fails.append(("std-files:extra-in-bundle", f"{rel} is bundled but not published in the specification"))
    n = 0
    for rel in sorted(set(spec) & set(bund)):
        n += 1
        a, b = open(spec[rel], "rb").read(), open(bund[rel], "rb").read()
        if a != b:
            fails.append(("std-files:differ", f"{rel}: bundled copy differs from the published file"))
        try:
            e = ext.Extension.from_json(b.decode())
            doc = json.loads(b)
            if e.name != doc["name"] or str(e.version) != doc["version"] or set(e.operations) != set(doc["operations"]) or set(e.types) != set(doc["types"]):
                fails.append(("std-files:load-incomplete", f"{rel}: loaded extension lacks definitions of the file"))
            again = json.loads(e.to_json())
            if norm_doc(again)["types"] != norm_doc(doc)["types"]:
                fails.append(("std-files:types-changed", f"{rel}: type definitions change on load+save"))
            for k, od in doc["operations"].items():
                got = again["operations"].get(k)
                if got is None or got["binary"] != od.get("binary", False) or got["description"] != od["description"] or (od.get("signature") is None) != (got.get("signature") is None):
                    fails.append(("std-files:op-changed", f"{rel}: op {k} changes on load+save"))
                    break
                if od.get("signature") is not None:
                    a_sig, b_sig = norm_doc(od["signature"]), norm_doc(got["signature"])
                    b_sig["body"]["runtime_reqs"] = sorted(set(b_sig["body"]["runtime_reqs"]) - {doc["name"]})
                    a_sig["body"]["runtime_reqs"] = sorted(set(a_sig["body"].get("runtime_reqs", [])) - {doc["name"]})
                    a_sig["body"].pop("t", None), b_sig["body"].pop("t", None)  # the body's type tag is optional on the wire
                    if a_sig != b_sig:
                        fails.append(("std-files:op-signature-changed", f"{rel}: signature of {k} changes on load+save"))
                        break
            fails += [(s, f"{rel}: {m}") for s, m in owner_fails(e, "std")]
        except Exception as ex:  # noqa: BLE001
            fails.append(("std-files:load-raised", f"{rel}: {type(ex).__name__}: {str(ex)[:200]}"))
    return fails, n


def check_helpers():
    """Typed helpers denote definitions that exist in the specification files with matching parameters."""
    import hugr.std.collections.array as arr
    import hugr.std.collections.list as lst
    import hugr.std.collections.static_array as sarr
    import hugr.std.float as fl
    import hugr.std.int as it
    import hugr.std.logic as lg
    import hugr.std.prelude as pr
    from hugr import ops, tys, val

    fails = []
    n = 0
    std = H.std_extensions()

    def enc(t):
        return json.loads(t._to_serial_root().model_dump_json())

    def type_ok(label, ty):
        nonlocal n
        n += 1
        j = enc(ty)
        errs = []
        if j.get("t") != "Opaque" or j["extension"] not in std:
            fails.append((f"helper-type:{label}:unknown-extension", f"{label}: {j.get('extension')} is not a published standard extension"))
            return
        H.opaque_type_errors(j, errs)
        for m in errs:
            fails.append((f"helper-type:{label}", f"{label}: {m}"))
        td = std[j["extension"]]["types"].get(j["id"])
        if td is not None and hasattr(ty, "type_def"):
            mine = [json.loads(p._to_serial_root().model_dump_json()) for p in ty.type_def.params]
            if mine != td["params"]:
                fails.append((f"helper-type:{label}:params", f"{label}: helper's definition has params {mine}, published {td['params']}"))

    for w in range(0, 7):
        type_ok(f"int_t({w})", it.int_t(w))
        type_ok(f"IntVal(width={w})", it.IntVal(1, w).type_())
    type_ok("INT_T", it.INT_T)
    type_ok("FLOAT_T", fl.FLOAT_T)
    type_ok("FloatVal", fl.FloatVal(1.0).type_())
    type_ok("STRING_T", pr.STRING_T)
    type_ok("StringVal", pr.StringVal("x").type_())
    for elem in (tys.Bool, tys.Qubit, it.INT_T, tys.Tuple(tys.Bool, tys.Qubit)):
        type_ok("Array", arr.Array(elem, 3))
        type_ok("List", lst.List(elem))
        if elem.type_bound() == tys.TypeBound.Copyable:
            type_ok("StaticArray", sarr.StaticArray(elem))
            type_ok("StaticArrayVal", sarr.StaticArrayVal([], elem, "n").type_())
        type_ok("ArrayVal", arr.ArrayVal([], elem).type_())
        type_ok("ListVal", lst.ListVal([], elem).type_())
    type_ok("Array(var size)", arr.Array(tys.Bool, tys.VariableArg(0, tys.BoundedNatParam())))
    # constants name their defining extension
    for label, v, extname in (("IntVal", it.IntVal(1, 3), "arithmetic.int.types"), ("FloatVal", fl.FloatVal(1.0), "arithmetic.float.types"), ("StringVal", pr.StringVal("s"), "prelude"),
                              ("ArrayVal", arr.ArrayVal([val.TRUE], tys.Bool), "collections.array"), ("ListVal", lst.ListVal([val.TRUE], tys.Bool), "collections.list"),
                              ("StaticArrayVal", sarr.StaticArrayVal([val.TRUE], tys.Bool, "a"), "collections.static_array")):
        n += 1
        x = v.to_value()
        if extname not in x.extensions or extname not in std:
            fails.append((f"helper-const:{label}:extension", f"{label} lists extensions {x.extensions}, its type is defined by {extname}"))

    # operations
    def op_ok(label, op):
        nonlocal n
        n += 1
        from hugr.hugr.node_port import Node

        j = json.loads(op._to_serial(Node(0)).model_dump_json())
        extd = std.get(j["extension"])
        if extd is None or j["name"] not in extd["operations"]:
            fails.append((f"helper-op:{label}:undefined", f"{label}: {j['extension']}.{j['name']} is not defined by the published extension"))
            return
        od = extd["operations"][j["name"]]
        ps, body = od["signature"]["params"], od["signature"]["body"]
        if len(j["args"]) != len(ps) or not all(H.arg_fits(a, p) for a, p in zip(j["args"], ps)):
            fails.append((f"helper-op:{label}:args", f"{label}: args {j['args']} do not fit the published params {ps}"))
            return
        inst = H.subst_sig(body, j["args"])
        if H.tok({**inst, "runtime_reqs": []}) != H.tok({**H.fn_type(j["signature"]), "runtime_reqs": []}):
            fails.append((f"helper-op:{label}:signature", f"{label}: helper signature {j['signature']} differs from the published scheme applied to its args"))
        if op.op_def().name != j["name"] or op.op_def().get_extension().name != j["extension"]:
            fails.append((f"helper-op:{label}:op_def", f"{label}: op_def() names a different definition"))

    op_ok("Not", lg.Not)
    for w in range(0, 7):
        op_ok(f"DivMod({w})", it._DivModDef(w))
    op_ok("DivMod", it.DivMod)
    for row in ([], [tys.Bool], [tys.Qubit, tys.Bool]):
        op_ok("MakeTuple", ops.MakeTuple(row))
        op_ok("UnpackTuple", ops.UnpackTuple(row))
    for t in (tys.Bool, tys.Qubit, it.INT_T):
        op_ok("Noop", ops.Noop(t))
    return fails, n


def _chunk(specs):
    return [(s, m, sp) for sp in specs for s, m in check_ext(sp)]


def run(tier: str, seed: int) -> Result:
    col = Collector()
    specs = list(ext_specs(tier))
    for res in pmap(_chunk, [specs[i::48] for i in range(48)]):
        for sig, msg, sp in res:
            col.add(sig, msg, {"ext": sp})
    ff, n_files = check_std_files()
    for sig, msg in ff:
        col.add(sig, msg, {"std_files": True})
    hf, n_h = check_helpers()
    for sig, msg in hf:
        col.add(sig, msg, {"helpers": True})
    col.sample({"ext": specs[len(specs) // 2]})
    col.sample({"std_files": n_files, "helpers": n_h})
    total = len(specs) + n_files + n_h
    cov = {
        "states": len(specs),
        "transitions": total,
        "traces_validated_against_impl": total,
        "evaluations": total,
        "distinct_nontrivial": len(specs) - 1,
        "rule": "extensions = ordered selections of <=2 of 4 type definitions (explicit / from-params bounds, 0..3 params) x <=2 (3) of 6 operation "
        "definitions (mono, polymorphic, binary-only, scheme+binary, with foreign requirements, row-polymorphic; description and misc set) x "
        "value subsets, cycling over 5 versions (incl. pre-release/build) and 3 requirement sets; every std extension file; every typed helper",
        "samples": col.samples,
        "exhaustive": True,
        "extensions": len(specs),
        "std_files": n_files,
        "helper_cases": n_h,
    }
    return Result(cov, col.violations, ["specification/std_extensions/*.json are the reference for the bundled library", "lowering functions (lower_funcs) are outside the property"])


def replay(case) -> list[Violation]:
    if "ext" in case:
        out = check_ext(case["ext"])
    elif "std_files" in case:
        out = check_std_files()[0]
    else:
        out = check_helpers()[0]
    return [Violation(s, m, case) for s, m in out]
