"""C20 - rendering draws every node, port and link of the HUGR exactly once.

E2 monitor: every complete builder program of the plan (thorough: also after every single store
mutation) x all render configurations (3 palettes x name qualification).  The DOT source is read
by R9 (mc/ref/dot.py) and compared with the HUGR's public queries."""

from __future__ import annotations

import re
from collections import Counter

from mc.checks import c02
from mc.drivers import bpm, ladder as _ladder, mutate
from mc.drivers.scenarios import SCENARIOS
from mc.engine import e2
from mc.engine.core import Collector, Result, Violation
from mc.ref import dot as D

PLAN = {
    "quick": ([("D3", 2), ("C2", 2), ("K1", 2), ("M5", 2), ("M4", 2), ("D1", 2), ("D2", 2), ("D0", 2), ("C1", 2), ("L1", 2), ("G1", 2), ("M1", 2), ("M2", 2)], 1),
    "thorough": ([("D3", 2), ("C2", 3), ("K1", 2), ("M5", 2), ("M4", 3), ("D1", 3), ("D2", 2), ("D0", 3), ("C1", 3), ("L1", 3), ("G1", 2), ("M1", 2), ("M2", 2)], 1),
}
_DEPTH = 0
_KINDS = ("deladd", "reuse", "del", "insert", "insertlink", "meta")  # quick: one mutation of each of these kinds per program
_LOADED_KINDS = ("insertlink", "deladd")  # mutations applied to the loaded copy of every program
_INCOMPLETE: list = []


def _incomplete_hugr():
    """A HUGR whose nested DFG has no outputs yet, with a link from it: rendering raises IncompleteOp after the
    nodes have been drawn."""
    if not _INCOMPLETE:
        from hugr import tys
        from hugr.build.dfg import Dfg

        wip = Dfg(tys.Bool)
        inner = wip.add_nested(wip.inputs()[0])
        wip.hugr.add_link(inner.parent_node.out(0), wip.output_node.inp(0))
        _INCOMPLETE.append(wip.hugr)
    return _INCOMPLETE[0]


_RENDERERS: dict = {}  # one long-lived DotRenderer per configuration, reused for every HUGR of the worker


def configs():
    from hugr.hugr.render import PALETTE, RenderConfig

    out = [("default-config", None)]
    for pname in PALETTE:
        for q in (False, True):
            out.append((f"{pname}/{'qualified' if q else 'plain'}", RenderConfig(PALETTE[pname], q)))
    return out


def _colours():
    from hugr.hugr.render import PALETTE

    cols = set()
    for p in PALETTE.values():
        cols |= {p.background, p.node, p.edge, p.dark, p.const, p.discard, p.node_border, p.port_border}
    return sorted(cols, key=len, reverse=True)


def _tok_text(t):
    return t[1] if t is not None else None


def expected_tree(h, n):
    kids = h.children(n)
    if not kids:
        return ("node", str(n.idx))
    return ("cluster", f"cluster{n.idx}", frozenset([("node", str(n.idx))] + [expected_tree(h, c) for c in kids]))


def got_tree(g: D.Graph, top=True):
    items = [("node", nid) for nid, _ in g.nodes] + [got_tree(s, False) for s in g.subgraphs]
    if top:
        return items
    return ("cluster", g.name, frozenset(items))


def base_name(op):
    from hugr.ops import AsExtOp

    if isinstance(op, AsExtOp):
        return op.op_def().name
    return op.name()


def ext_prefix(op):
    from hugr.ops import AsExtOp

    if isinstance(op, AsExtOp):
        q = op.op_def().qualified_name()
        return q[: len(q) - len(op.op_def().name)]
    return ""


def check_render(h, cfg_name, cfg):
    """Returns (fails, normalised view) for one configuration."""
    fails = []

    def bad(what, msg):
        fails.append((what, f"[{cfg_name}] {msg}"))

    try:
        src = h.render_dot(cfg).source
        from hugr.hugr.render import DotRenderer

        if cfg_name not in _RENDERERS:
            _RENDERERS[cfg_name] = DotRenderer(cfg)
        # the long-lived renderer is first handed a HUGR it must refuse (an operation without its output row):
        # a refused rendering leaves nothing behind that shows in the next drawing
        try:
            _RENDERERS[cfg_name].render(_incomplete_hugr())
        except Exception:  # noqa: BLE001
            pass
        src_reused = _RENDERERS[cfg_name].render(h).source
        if src_reused != src:
            fails.append(("renderer-reuse", f"[{cfg_name}] a DotRenderer that already rendered other HUGRs produces a different source than a fresh one"))
    except Exception as e:  # noqa: BLE001
        import traceback

        where = traceback.extract_tb(e.__traceback__)[-1]
        return [(f"render-raised:{type(e).__name__}", f"[{cfg_name}] render_dot raised {type(e).__name__}: {e} at {where.name}:{where.lineno}")], None
    try:
        g = D.parse(src)
    except D.DotError as e:
        return [("dot-unparsable", f"[{cfg_name}] DOT source cannot be read: {e}")], None
    graphs = list(D.all_graphs(g))
    # ---- node statements
    stmts = Counter(nid for gr in graphs for nid, _ in gr.nodes)
    live = {str(n.idx): n for n in h}
    for nid, k in stmts.items():
        if nid not in live:
            bad("node:phantom", f"node statement {nid} has no HUGR node")
        elif k != 1:
            bad("node:duplicate", f"node {nid} has {k} node statements")
    for nid in live:
        if nid not in stmts:
            bad("node:missing", f"HUGR node {nid} ({type(h[live[nid]].op).__name__}) has no node statement")
    view_nodes = {}
    for gr in graphs:
        for nid, attrs in gr.nodes:
            if nid not in live:
                continue
            lab = attrs.get("label")
            if lab is None or lab[0] != "html":
                bad("node:label", f"node {nid} has no HTML label")
                continue
            name, ins, outs = D.label_info(lab[1])
            n = live[nid]
            op = h[n].op
            exp_in = [str(i) for i in range(h.num_in_ports(n))]
            exp_out = [str(i) for i in range(h.num_out_ports(n))]
            if ins != exp_in:
                bad("ports:in-cells", f"node {nid} ({type(op).__name__}) draws input cells {ins}, HUGR reports ports {exp_in}")
            if outs != exp_out:
                bad("ports:out-cells", f"node {nid} ({type(op).__name__}) draws output cells {outs}, HUGR reports ports {exp_out}")
            if name is None or base_name(op) not in name:
                bad("node:name", f"node {nid} label shows {name!r}, operation display name is {base_name(op)!r}")
            pre = ext_prefix(op)
            stripped = name[len(pre) :] if name and pre and name.startswith(pre) else name
            meta = {k: str(v) for k, v in h[n].metadata.items()}
            view_nodes[nid] = (stripped, tuple(ins), tuple(outs), tuple(sorted(k for k in meta if f"{k}: " in lab[1])))
    # ---- clusters
    exp_top = [expected_tree(h, h.root)]
    if set(got_tree(g)) != set(exp_top) or len(got_tree(g)) != 1:
        names = sorted(gr.name or "" for gr in graphs[1:])
        exp_names = sorted(f"cluster{n.idx}" for n in h if h.children(n))
        if names != exp_names:
            bad("clusters:set", f"clusters {names}, expected one per node with children: {exp_names}")
        else:
            bad("clusters:nesting", "clusters are not nested as the hierarchy is")
    # ---- edges
    edges = Counter()
    labels = {}
    for gr in graphs:
        for s, sp, t, tp, attrs in gr.edges:
            edges[(s, sp, t, tp)] += 1
            labels.setdefault((s, sp, t, tp), []).append(_tok_text(attrs.get("label")))
    exp_edges = Counter()
    for sp, tp in h.links():
        exp_edges[(str(sp.node.idx), f"out.{sp.offset}", str(tp.node.idx), f"in.{tp.offset}")] += 1
    if edges != exp_edges:
        extra, missing = edges - exp_edges, exp_edges - edges
        kind = "order" if any(k[1] == "out.-1" for k in list(extra) + list(missing)) else "link"
        bad(f"edges:{kind}", f"edge statements differ from links(): extra={dict(extra)} missing={dict(missing)}")
    from hugr import tys

    for sp, tp in h.links():
        try:
            kind = h.port_kind(sp)
        except Exception:  # noqa: BLE001
            continue
        key = (str(sp.node.idx), f"out.{sp.offset}", str(tp.node.idx), f"in.{tp.offset}")
        if isinstance(kind, tys.ValueKind) and key in labels:
            if str(kind.ty) not in labels[key]:
                bad("edges:value-label", f"value edge {key} labelled {labels[key]}, type is {str(kind.ty)!r}")
    view = (tuple(sorted(view_nodes.items())), tuple(sorted(edges.items())), tuple(sorted((k, tuple(v)) for k, v in labels.items())), frozenset(got_tree(g)))
    return fails, (view, src)


def check_hugr(h, tag, few_configs=False):
    out = []
    before = (c02.structure(h), h.to_json())
    views = {}
    srcs = {}
    cfgs = configs()
    if few_configs:
        cfgs = [c for c in cfgs if c[0] in ("default-config", "nb/qualified")]
    for name, cfg in cfgs:
        fails, res = check_render(h, name, cfg)
        for sig, msg in fails:
            out.append((f"{sig}:{tag}", msg))
        if res is not None:
            views[name], srcs[name] = res
    after = (c02.structure(h), h.to_json())
    if before != after:
        out.append((f"hugr-modified:{tag}", "rendering changed the HUGR (structure dump or JSON differs before/after)"))
    # independence of configuration: same content for every palette / qualification
    names = list(views)
    for nm in names[1:]:
        if views[nm] != views[names[0]]:
            a, b = views[names[0]], views[nm]
            part = ["node names / port cells", "edges", "edge labels", "clusters"][next(i for i in range(4) if a[i] != b[i])]
            detail = ""
            if a[0] != b[0]:
                diff = [(x, y) for x, y in zip(a[0], b[0]) if x != y][:1]
                detail = f": {diff}"
            out.append((f"config-dependent:{part}:{tag}", f"rendering under {nm} differs from {names[0]} in {part}{detail}"))
            break
    cols = _colours()
    pat = re.compile("|".join('"?' + re.escape(c) + '"?' for c in cols))
    for q in ("plain", "qualified"):
        group = [n for n in srcs if n.endswith("/" + q)]
        norm = {n: pat.sub("COL", srcs[n]) for n in group}
        for n in group[1:]:
            if norm[n] != norm[group[0]]:
                out.append((f"config-dependent:source-beyond-colours:{tag}", f"DOT sources under {group[0]} and {n} differ in more than colours"))
                break
    return out


def oracle(sc, ctx, program):
    out = []

    def factory():
        return bpm.run(sc, program).hugr

    for hist, h in mutate.histories(factory, _DEPTH, "quick", kinds=None if _ALL_KINDS else _KINDS, pre=lambda g: mutate.observe(g, render=True)):
        tag = "+".join(m[0] for m in hist) or "built"
        for sig, msg in check_hugr(h, tag, few_configs=bool(hist)):
            out.append((sig, f"{msg} | history={hist} | program={program}"))
    # the other origin: the loaded copy (as read, and after one mutation of each kind) is drawn
    try:
        l0 = mutate.load_copy(factory())
    except Exception:  # noqa: BLE001 - C02's business
        l0 = None
    if l0 is not None:
        for sig, msg in check_hugr(l0, "loaded", few_configs=True):
            out.append((sig, f"{msg} | history=[['loaded']] | program={program}"))
        for hist, l in mutate.loaded_histories(factory, "quick", kinds=_LOADED_KINDS, pre=lambda g: mutate.observe(g, render=True)):
            if l is None:
                continue
            for sig, msg in check_hugr(l, "loaded+" + hist[1][0], few_configs=True):
                out.append((sig, f"{msg} | history={hist} | program={program}"))
    return out


_TIER = "quick"
_ALL_KINDS = False  # thorough, second phase: every store mutation instead of one of each kind

LADDER = {"quick": list(range(0, 19)) + [31, 32, 33], "thorough": list(range(0, 70)) + [127, 128, 129, 255, 256, 257]}


def ladder_hugr(kind, n):
    """Size ladder: nodes with n ports / n children / a port with n links (what the builder programs, with
    rows of length <= 3, never reach)."""
    from hugr import ops, tys
    from hugr.build.dfg import Dfg
    from hugr.std.logic import Not

    if kind == "wide":  # Input with n outputs, MakeTuple with n inputs, UnpackTuple with n outputs, Output with n inputs
        d = Dfg(*[tys.Bool] * n)
        t = d.add_op(ops.MakeTuple(), *d.inputs())
        u = d.add_op(ops.UnpackTuple(), t)
        d.set_outputs(*[u[i] for i in range(n)])
        return d.hugr
    if kind == "fanout":  # one out port with n links (n + 1 with the Output)
        d = Dfg(tys.Bool)
        (a,) = d.inputs()
        ns = [d.add(Not(a)) for _ in range(n)]
        d.set_outputs(a, *ns[:2])
        return d.hugr
    # "chain": n siblings in a row joined by value and order edges
    d = Dfg(tys.Bool)
    (w,) = d.inputs()
    prev = None
    for _ in range(n):
        nd = d.add(Not(w))
        if prev is not None:
            d.add_state_order(prev, nd)
        prev, w = nd, nd[0]
    d.set_outputs(w)
    return d.hugr


def ladder_cases(tier):
    for kind in ("wide", "fanout", "chain"):
        for n in LADDER[tier]:
            yield [kind, n]
    # the shared families (nesting depth, cases, blocks, loops, functions, polymorphic calls, index reuse)
    for case in _ladder.cases_for(tier, families=[f for f in _ladder.FAMILIES if f not in ("wide", "fanout", "chain")]):
        yield case


def check_ladder(case):
    h = ladder_hugr(*case) if len(case) == 2 else _ladder.build(case)
    return [(f"{sig}:ladder-{case[0]}", f"{msg} | ladder={case}") for sig, msg in check_hugr(h, "built", few_configs=True)]


def run(tier: str, seed: int) -> Result:
    global _DEPTH, _TIER, _ALL_KINDS
    _TIER = tier
    _ALL_KINDS = False
    plan, _DEPTH = PLAN[tier]
    col = Collector()
    r = e2.explore(SCENARIOS, oracle, plan)
    for sig, msg, case in r.fails:
        case["depth"] = _DEPTH
        case["tier"] = tier
        col.add(sig, msg, case)
    if tier == "thorough":
        # second phase: the quick plan's programs, each after *every* single store mutation
        _ALL_KINDS = True
        plan2, _DEPTH = PLAN["quick"]
        r2 = e2.explore(SCENARIOS, oracle, plan2)
        _ALL_KINDS = False
        for sig, msg, case in r2.fails:
            case["depth"] = _DEPTH
            case["tier"] = tier
            case["all_kinds"] = True
            col.add(sig, msg, case)
        r.states += r2.states
        r.transitions += r2.transitions
        r.complete_programs += r2.complete_programs
        r.nontrivial += r2.nontrivial
    n_ladder = 0
    for case in ladder_cases(tier):
        n_ladder += 1
        for sig, msg in check_ladder(case):
            col.add(sig, msg, {"ladder": case, "tier": tier})
    ncfg = len(configs())
    cov = {
        "states": r.states,
        "transitions": r.transitions,
        "traces_validated_against_impl": r.transitions,
        "evaluations": r.complete_programs * ncfg,
        "distinct_nontrivial": r.nontrivial,
        "rule": f"every complete builder program of the plan (mutation depth {_DEPTH}) x {ncfg} render configurations; the DOT source is "
        "parsed (R9) and node statements, port cells, cluster nesting, edge statements and value labels are compared with the "
        "HUGR's public queries; HUGR dump identical before/after; outputs equal across configurations modulo colours/extension prefix; "
        "plus a size ladder (nodes with n ports, a port with n links, n chained siblings; n = 0..18, 31..33, thorough 0..69, 127..129, 255..257)",
        "samples": r.samples or [{"scenario": "D1", "program": []}],
        "exhaustive": True,
        "plan": plan,
        "render_configurations": [n for n, _ in configs()],
        "complete_programs": r.complete_programs,
        "feature_counts": r.features,
        "ladder_cases": n_ladder,
        "ladder": {"kinds": ["wide (n ports on Input/MakeTuple/UnpackTuple/Output)", "fanout (n links on one port)", "chain (n siblings, value + order edges)"], "n": LADDER[tier]},
    }
    return Result(cov, col.violations, ["R9 DOT reader: mc/ref/dot.py", "the `dot` layout binary is never invoked"])


def replay(case) -> list[Violation]:
    global _DEPTH, _TIER, _ALL_KINDS
    _DEPTH = case.get("depth", 0)
    _TIER = case.get("tier", "quick")
    _ALL_KINDS = bool(case.get("all_kinds"))
    if "ladder" in case:
        return [Violation(s, m, case) for s, m in check_ladder(case["ladder"])]
    sc = SCENARIOS[case["scenario"]]
    ctx = bpm.run(sc, case["program"])
    return [Violation(s, m, case) for s, m in oracle(sc, ctx, case["program"])]
