"""C12 - the model export is well scoped and faithful to the HUGR.

E2 (module-rooted scenario families): every complete builder program of the plan; oracle R6
walks the dataclass tree returned by Hugr.to_model() in parallel with the HUGR (public
queries) and checks region structure, listed ports, link names (partition == connectivity),
function symbols, inlined constants, order hints and metadata.  Plus the static clause: the
Python model classes expose exactly the attributes hugr-model/src/v0/ast/python.rs reads."""

from __future__ import annotations

import dataclasses
import json
import os
import re

from mc.drivers import bpm, ladder
from mc.drivers.scenarios import SCENARIOS
from mc.engine import e2
from mc.engine.core import Collector, Result, Violation, jstrict

PLAN = {
    "quick": [("M1", 3), ("M2", 3), ("M3", 3), ("M4", 3), ("M5", 3), ("M4b", 4), ("M7", 3)],
    "thorough": [("M1", 4), ("M2", 4), ("M3", 3), ("M4", 4), ("M5", 4), ("M4b", 6), ("M7", 4)]  # M3 at 4 free calls exceeds 25 min on 16 cores,
}


# ------------------------------------------------------------------ expectations from the HUGR
def value_counts(op):
    """(#inputs, #outputs) a model node lists: value ports of the signature; control ports for blocks."""
    from hugr import ops

    if isinstance(op, ops.DataflowBlock):
        return 1, len(op.sum_ty.variant_rows)
    if isinstance(op, ops.Call):
        return len(op.instantiation.input), len(op.instantiation.output)
    if isinstance(op, ops.DataflowOp):
        s = op.outer_signature()
        return len(s.input), len(s.output)
    return 0, 0


MODEL_OP = {
    "DFG": "Dfg", "CFG": "Cfg", "DataflowBlock": "Block", "FuncDefn": "DefineFunc", "FuncDecl": "DeclareFunc",
    "TailLoop": "TailLoop", "Conditional": "Conditional", "AliasDecl": "DeclareAlias", "AliasDefn": "DefineAlias",
}


class UF:
    def __init__(self):
        self.p = {}

    def find(self, x):
        self.p.setdefault(x, x)
        while self.p[x] != x:
            self.p[x] = self.p[self.p[x]]
            x = self.p[x]
        return x

    def union(self, a, b):
        self.p[self.find(a)] = self.find(b)


_INCOMPLETE: list = []


def _incomplete_module():
    if not _INCOMPLETE:
        from hugr import tys
        from hugr.build.function import Module

        m = Module()
        f = m.define_function("f", [tys.Bool], [tys.Bool])
        f.set_outputs(*f.inputs())
        g = m.define_main([tys.Bool])
        g.call(f.parent_node, *g.inputs())  # main never gets its outputs
        _INCOMPLETE.append(m.hugr)
    return _INCOMPLETE[0]


def check_model(h):
    import hugr.model as model
    from hugr import ops
    from hugr.hugr.node_port import InPort, OutPort

    fails = []

    def bad(what, msg):
        fails.append((what, msg))

    # an export that must be refused (a function without its outputs) comes first: it leaves nothing behind
    try:
        _incomplete_module().to_model()
    except Exception:  # noqa: BLE001
        pass
    try:
        mod = h.to_model()
    except Exception as e:  # noqa: BLE001
        import traceback

        tb = traceback.extract_tb(e.__traceback__)[-1]
        return [(f"to_model-raised:{type(e).__name__}", f"to_model raised {type(e).__name__}: {e} at {tb.name}:{tb.lineno}")]
    if not isinstance(mod, model.Module) or mod.root.kind != model.RegionKind.MODULE:
        return [("module-root", "to_model() did not return a Module with a MODULE region")]

    occurrences = []  # (port key, name, side, region kind)
    symbol_of = {}  # hugr node idx -> symbol name
    call_refs = []  # (hugr node idx, referenced symbol, expected callee idx)
    matched = {}  # hugr node idx -> model node

    def match_children(parent, region, kind):
        """hugr children of `parent` that become model nodes, zipped with region.children."""
        kids = []
        for c in h.children(parent):
            op = h[c].op
            if isinstance(op, (ops.Input, ops.Output, ops.Const, ops.ExitBlock)):
                continue
            kids.append(c)
        if len(kids) != len(region.children):
            bad(f"region:{kind}:child-count", f"region of node {parent.idx} has {len(region.children)} nodes for {len(kids)} HUGR children {[k.idx for k in kids]}")
            return
        for c, mn in zip(kids, region.children):
            node(c, mn)

    def dfg_region(parent, region):
        if region.kind != model.RegionKind.DATA_FLOW:
            bad("region:kind", f"region of node {parent.idx} has kind {region.kind}, expected DATA_FLOW")
        inp, outp = h.children(parent)[0], h.children(parent)[1]
        n_src = len(h[inp].op.types)
        n_tgt = len(h[outp].op.types)
        if len(region.sources) != n_src or len(region.targets) != n_tgt:
            bad("region:dfg:sources-targets", f"region of node {parent.idx} lists {len(region.sources)} sources / {len(region.targets)} targets, Input/Output rows have {n_src}/{n_tgt}")
        for i, nm in enumerate(region.sources):
            occurrences.append((("out", inp.idx, i), nm, "producer", "dfg"))
        for i, nm in enumerate(region.targets):
            occurrences.append((("in", outp.idx, i), nm, "consumer", "dfg"))
        match_children(parent, region, "dfg")
        order_hints(parent, region)

    def cfg_region(parent, region):
        if region.kind != model.RegionKind.CONTROL_FLOW:
            bad("region:kind", f"region of CFG {parent.idx} has kind {region.kind}, expected CONTROL_FLOW")
        kids = h.children(parent)
        entry, exit_ = kids[0], kids[1]
        if len(region.sources) != 1 or len(region.targets) != 1:
            bad("region:cfg:sources-targets", f"CFG region of node {parent.idx} has {len(region.sources)} sources / {len(region.targets)} targets, expected 1/1")
        if region.sources:
            occurrences.append((("in", entry.idx, 0), region.sources[0], "producer", "cfg"))
        if region.targets:
            occurrences.append((("in", exit_.idx, 0), region.targets[0], "consumer", "cfg"))
        match_children(parent, region, "cfg")

    def order_hints(parent, region):
        keys = {}
        for c in h.children(parent):
            mn = matched.get(c.idx)
            if mn is None:
                continue
            ks = [t.args[0].value for t in mn.meta if isinstance(t, model.Apply) and t.symbol == "core.order_hint.key"]
            if len(ks) > 1:
                bad("order-hint:duplicate-key", f"node {c.idx} carries {len(ks)} order keys")
            if ks:
                keys[c.idx] = ks[0]
        if len(set(keys.values())) != len(keys):
            bad("order-hint:key-clash", f"order keys of region {parent.idx} are not unique: {keys}")
        exp = set()
        for c in h.children(parent):
            if isinstance(h[c].op, (ops.Input, ops.Output)):
                continue
            for s in h.outgoing_order_links(c):
                if isinstance(h[s].op, (ops.Input, ops.Output)) or h[s].parent != h[c].parent:
                    continue
                exp.add((c.idx, s.idx))
        got = set()
        inv = {v: k for k, v in keys.items()}
        for t in region.meta:
            if isinstance(t, model.Apply) and t.symbol == "core.order_hint.order":
                a, b = t.args[0].value, t.args[1].value
                got.add((inv.get(a, f"?{a}"), inv.get(b, f"?{b}")))
        for a, b in exp:
            if a not in keys or b not in keys:
                bad("order-hint:missing-key", f"order edge {a}->{b} in region {parent.idx}: a node has no order key")
        if got != exp:
            if exp - got:
                bad("order-hint:missing-on-region", f"region of node {parent.idx}: order edges {sorted(exp - got)} have no order hint on the region (hints: {sorted(map(str, got))})")
            else:
                bad("order-hint:spurious", f"region of node {parent.idx}: order hints {sorted(map(str, got - exp))} match no order edge")

    def node(c, mn):
        op = h[c].op
        matched[c.idx] = mn
        cls = type(mn.operation).__name__
        exp_cls = MODEL_OP.get(type(op).__name__.replace("_", ""), "CustomOp")
        if isinstance(op, ops.FuncDefn):
            exp_cls = "DefineFunc"
        if cls != exp_cls:
            bad("node:operation-class", f"node {c.idx} ({type(op).__name__}) exported as {cls}, expected {exp_cls}")
        n_in, n_out = value_counts(op)
        if len(mn.inputs) != n_in:
            kind = "static-port-listed" if isinstance(op, (ops.Call, ops.LoadConst, ops.LoadFunc)) and len(mn.inputs) == n_in + 1 else "count"
            bad(f"ports:inputs:{kind}:{type(op).__name__}", f"node {c.idx} ({type(op).__name__}) lists {len(mn.inputs)} inputs, its signature has {n_in} value inputs")
        if len(mn.outputs) != n_out:
            bad(f"ports:outputs:{type(op).__name__}", f"node {c.idx} ({type(op).__name__}) lists {len(mn.outputs)} outputs, its signature has {n_out} value outputs")
        is_block = isinstance(op, ops.DataflowBlock)
        for i, nm in enumerate(mn.inputs[:n_in]):
            occurrences.append((("in", c.idx, i), nm, "consumer", "cfg" if is_block else "dfg"))
        for i, nm in enumerate(mn.outputs[:n_out]):
            occurrences.append((("out", c.idx, i), nm, "producer", "cfg" if is_block else "dfg"))
        # metadata
        got_meta = {}
        for t in mn.meta:
            if isinstance(t, model.Apply) and t.symbol == "compat.meta_json":
                got_meta[t.args[0].value] = t.args[1].value
        exp_meta = {k: json.dumps(v) for k, v in h[c].metadata.items()}
        if jstrict({k: json.loads(v) for k, v in got_meta.items()}) != jstrict({k: json.loads(v) for k, v in exp_meta.items()}):
            bad("metadata", f"node {c.idx}: metadata {dict(h[c].metadata)} exported as {got_meta}")
        # symbols and applications
        if isinstance(op, (ops.FuncDefn, ops.FuncDecl)):
            symbol_of[c.idx] = mn.operation.symbol.name
        if isinstance(op, (ops.Call, ops.LoadFunc)):
            callee = None
            off = len(op.instantiation.input) if isinstance(op, ops.Call) else 0
            for p in h.linked_ports(InPort(c, off)):
                callee = p.node.idx
            term = mn.operation.operation if isinstance(mn.operation, model.CustomOp) else None
            ref = None
            if isinstance(term, model.Apply) and term.args:
                f = term.args[-1]
                if isinstance(f, model.Apply):
                    ref = f.symbol
                exp_sym = "core.call" if isinstance(op, ops.Call) else "core.load_const"
                if term.symbol != exp_sym:
                    bad("node:custom-symbol", f"node {c.idx} ({type(op).__name__}) exported as {term.symbol}")
            call_refs.append((c.idx, ref, callee))
        if isinstance(op, ops.LoadConst):
            term = mn.operation.operation if isinstance(mn.operation, model.CustomOp) else None
            const = None
            for p in h.linked_ports(InPort(c, 0)):
                const = h[p.node].op
            if not (isinstance(term, model.Apply) and term.symbol == "core.load_const" and len(term.args) == 2 and isinstance(const, ops.Const) and term.args[1] == const.val.to_model()):
                bad("const-not-inlined", f"LoadConst {c.idx} does not carry its constant's value term")
        # regions
        if isinstance(op, (ops.DFG, ops.TailLoop, ops.FuncDefn, ops.DataflowBlock)):
            if len(mn.regions) != 1:
                bad("node:regions", f"node {c.idx} ({type(op).__name__}) has {len(mn.regions)} regions, expected 1")
            else:
                dfg_region(c, mn.regions[0])
        elif isinstance(op, ops.Conditional):
            cases = h.children(c)
            if len(mn.regions) != len(cases):
                bad("node:regions", f"Conditional {c.idx} has {len(mn.regions)} regions for {len(cases)} cases")
            else:
                for cs, rg in zip(cases, mn.regions):
                    dfg_region(cs, rg)
        elif isinstance(op, ops.CFG):
            if len(mn.regions) != 1:
                bad("node:regions", f"CFG {c.idx} has {len(mn.regions)} regions, expected 1")
            else:
                cfg_region(c, mn.regions[0])
        elif mn.regions:
            bad("node:regions", f"node {c.idx} ({type(op).__name__}) has {len(mn.regions)} regions, expected none")

    match_children(h.root, mod.root, "module")

    # ---- function applications name symbols of the module
    declared = set(symbol_of.values())
    for idx, ref, callee in call_refs:
        if ref is None or ref not in declared:
            bad("symbol:unresolved", f"node {idx} applies {ref!r}, which no function definition/declaration of the module declares (declared: {sorted(declared)})")
        elif callee is not None and symbol_of.get(callee) != ref:
            bad("symbol:wrong-function", f"node {idx} applies {ref!r} but is linked to function node {callee} ({symbol_of.get(callee)!r})")
    if len(declared) != len(symbol_of):
        bad("symbol:clash", f"two functions export the same symbol: {symbol_of}")

    # ---- link names: partition of the listed ports == connectivity through HUGR edges
    listed = {}
    for port, nm, side, rk in occurrences:
        listed.setdefault(port, nm)
    uf = UF()
    for sp, tp in h.links():
        a, b = ("out", sp.node.idx, sp.offset), ("in", tp.node.idx, tp.offset)
        if a in listed and b in listed:
            uf.union(a, b)
    # a CFG region's source is the entry block's control input: same port listed twice is fine
    by_name, by_comp = {}, {}
    for port, nm in listed.items():
        by_name.setdefault(nm, set()).add(uf.find(port))
        by_comp.setdefault(uf.find(port), set()).add(nm)
    for nm, comps in by_name.items():
        if len(comps) > 1:
            ports = [p for p, n in listed.items() if n == nm]
            bad("links:name-shared-by-unconnected-ports", f"link name {nm!r} is carried by ports that no edge joins: {ports[:4]}")
            break
    for comp, names in by_comp.items():
        if len(names) > 1:
            ports = [(p, n) for p, n in listed.items() if uf.find(p) == comp]
            bad("links:edge-with-two-names", f"ports joined by HUGR edges carry different link names: {ports[:4]}")
            break
    # one producer-side occurrence per link in dataflow regions, one consumer-side in control flow
    prod, cons = {}, {}
    for port, nm, side, rk in occurrences:
        if rk == "dfg" and side == "producer":
            prod.setdefault(nm, set()).add(port)
        if rk == "cfg" and side == "consumer" and port[0] == "in":
            cons.setdefault(nm, set()).add(port)
    for nm, ps in prod.items():
        if len(ps) > 1:
            bad("links:two-producers", f"link {nm!r} has {len(ps)} producer-side ports in dataflow regions: {sorted(ps)[:3]}")
            break
    for nm, ps in cons.items():
        if len(ps) > 1:
            bad("links:two-cf-consumers", f"control-flow link {nm!r} has {len(ps)} consumer-side ports: {sorted(ps)[:3]}")
            break
    return fails


# ------------------------------------------------------------------ static clause: model classes vs python.rs
def rust_attrs():
    path = os.path.join(os.environ.get("HUGR_REPO", "/repo"), "hugr-model", "src", "v0", "ast", "python.rs")
    src = open(path).read()
    table: dict[str, set] = {}
    cur = None
    struct_for = {"Param": "Param", "Symbol": "Symbol", "Node": "Node", "Region": "Region", "Module": "Module", "Package": "Package"}
    for line in src.splitlines():
        m = re.search(r"^impl<'py> (?:pyo3::)?FromPyObject<'py> for (\w+)", line)
        if m:
            cur = struct_for.get(m.group(1))
            if cur:
                table.setdefault(cur, set())
            continue
        if re.search(r"^impl", line):
            cur = None
            continue
        m = re.match(r'\s*"(\w+)" => ', line)
        if m:
            cur = m.group(1)
            table.setdefault(cur, set())
        if "part.getattr(\"seq\")" in line:
            table.setdefault("Splice", set()).add("seq")
            continue
        m = re.search(r'(\w+)\.getattr\("(\w+)"\)', line)
        if m and m.group(1) != "py_module" and cur:
            table[cur].add(m.group(2))
    return table


def check_model_classes():
    import hugr.model as model

    fails = []
    table = rust_attrs()
    n = 0
    for cls_name, attrs in sorted(table.items()):
        n += 1
        cls = getattr(model, cls_name, None)
        if cls is None:
            fails.append((f"model-class:missing:{cls_name}", f"hugr.model has no class {cls_name}, which python.rs constructs/reads"))
            continue
        got = {f.name for f in dataclasses.fields(cls)} if dataclasses.is_dataclass(cls) else set()
        if got != attrs:
            fails.append((f"model-class:attributes:{cls_name}", f"hugr.model.{cls_name} has fields {sorted(got)}, python.rs reads {sorted(attrs)}"))
    return fails, n


LOADED_TOO = ("M1", "M5", "M6", "M7")  # scenarios whose programs are also exported after a save/load cycle


def check_model_loaded(h):
    """The same HUGR after Hugr.load_json(h.to_json()): port counts of a loaded graph come from its links, the
    export must still list the ports of the signatures."""
    from hugr.hugr import Hugr

    try:
        h2 = Hugr.load_json(h.to_json())
    except Exception:  # noqa: BLE001
        return []  # C02's business
    return [(f"{sig}:loaded", msg) for sig, msg in check_model(h2)]


def ladder_judge(h):
    return check_model(h) + check_model_loaded(h)


def oracle(sc, ctx, program):
    out = check_model(ctx.hugr)
    if sc.name in LOADED_TOO:
        out = out + check_model_loaded(ctx.hugr)
    return [(sig, f"{msg} | program={program}") for sig, msg in out]


def run(tier: str, seed: int) -> Result:
    col = Collector()
    r = e2.explore(SCENARIOS, oracle, PLAN[tier])
    for sig, msg, case in r.fails:
        col.add(sig, msg, case)
    n_ladder = ladder.run_ladder(tier, ladder_judge, col, hosts=("fn",))
    cf, n_cls = check_model_classes()
    for sig, msg in cf:
        col.add(sig, msg, {"model_classes": True})
    cov = {
        "states": r.states,
        "transitions": r.transitions,
        "traces_validated_against_impl": r.transitions,
        "evaluations": r.complete_programs + n_cls + n_ladder,
        "distinct_nontrivial": r.nontrivial,
        "rule": "every complete module-rooted builder program of the plan (functions with nested DFGs, order edges, constants, calls incl. "
        "recursion/polymorphic/row-polymorphic, function values, conditionals, loops, CFGs); Hugr.to_model() is walked in parallel with "
        "the HUGR: region structure, listed ports, link-name partition vs connectivity, symbols, inlined constants, order hints, metadata; "
        "plus model dataclass fields vs the getattr() calls in python.rs; plus the size ladders of mc/drivers/ladder.py (module-hosted)",
        "samples": r.samples or [{"scenario": "M1", "program": []}],
        "exhaustive": True,
        "plan": PLAN[tier],
        "complete_programs": r.complete_programs,
        "programs_where_a_builder_call_raised": r.builder_raised,
        "model_classes_compared": n_cls,
        "feature_counts": r.features,
        "ladder_cases": n_ladder,
        "ladder": {"families": sorted(ladder.FAMILIES), "sizes": ladder.SIZES[tier], "caps": ladder.CAPS, "host": "module function"},
    }
    return Result(cov, col.violations, ["R6: this file (from hugr-core/src/export.rs, import.rs link rules)", "str()/bytes() of model objects need the native module and are not exercised"])


def replay(case) -> list[Violation]:
    if "ladder" in case:
        return [Violation(s, m, case) for s, m in ladder.replay_ladder(case, ladder_judge)]
    if "model_classes" in case:
        return [Violation(s, m, case) for s, m in check_model_classes()[0]]
    sc = SCENARIOS[case["scenario"]]
    ctx = bpm.run(sc, case["program"])
    return [Violation(s, m, case) for s, m in oracle(sc, ctx, case["program"])]
