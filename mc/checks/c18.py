"""C18 - BiMap stays a bijection under every operation sequence.

Engine E1, closed completely: every reachable state (partial bijection over the alphabet) x
every operation with every argument.  Reference model: a plain set of pairs."""

from __future__ import annotations

import itertools

from mc.engine import e1
from mc.engine.core import Collector, Result, Violation, permuted

ALPHA = {"quick": [0, "", (), 1], "thorough": [0, "", (), 1, "a", 2.5]}


def _j(x):
    """JSON-able spelling of an alphabet element."""
    return {"t": "tuple"} if x == () and isinstance(x, tuple) else x


def _u(x):
    return () if isinstance(x, dict) else x


class S:
    def __init__(self, bm):
        self.bm = bm
        self.ref: set = set()  # set of (left, right)


class Machine:
    def __init__(self, keys, vals):
        self.K = keys
        self.V = vals

    def initial(self):
        from hugr.utils import BiMap

        return S(BiMap())

    def enabled(self, s):
        evs = []
        for k in self.K:
            for v in self.V:
                evs.append(["insert_left", _j(k), _j(v)])
                evs.append(["insert_right", _j(v), _j(k)])
                evs.append(["setitem", _j(k), _j(v)])
        for k in self.K:
            evs.append(["delete_left", _j(k)])
            evs.append(["delitem", _j(k)])
        for v in self.V:
            evs.append(["delete_right", _j(v)])
        return evs

    def outcome(self, s, ev):
        return (ev[0], len(s.ref))

    def step(self, s, ev, light=False):
        bm, ref = s.bm, s.ref
        op, args = ev[0], [_u(a) for a in ev[1:]]
        fails = []
        # ---- reference transition
        exp_exc = None
        if op in ("insert_left", "setitem", "insert_right"):
            k, v = (args[0], args[1]) if op != "insert_right" else (args[1], args[0])
            new = {(a, b) for (a, b) in ref if a != k and b != v}
            new.add((k, v))
        elif op in ("delete_left", "delitem"):
            k = args[0]
            if not any(a == k for a, _ in ref):
                exp_exc, new = KeyError, set(ref)
            else:
                new = {(a, b) for (a, b) in ref if a != k}
        else:
            v = args[0]
            if not any(b == v for _, b in ref):
                exp_exc, new = KeyError, set(ref)
            else:
                new = {(a, b) for (a, b) in ref if b != v}
        # ---- implementation transition
        got_exc = None
        try:
            if op == "insert_left":
                bm.insert_left(*args)
            elif op == "insert_right":
                bm.insert_right(*args)
            elif op == "setitem":
                bm[args[0]] = args[1]
            elif op == "delete_left":
                bm.delete_left(*args)
            elif op == "delitem":
                del bm[args[0]]
            else:
                bm.delete_right(*args)
        except Exception as e:  # noqa: BLE001
            got_exc = type(e)
        if (exp_exc is None) != (got_exc is None) or (exp_exc and not issubclass(got_exc, exp_exc)):
            fails.append(
                (
                    f"{op}:exception",
                    f"{op}{tuple(args)} on {sorted(map(repr, ref))}: expected "
                    f"{exp_exc.__name__ if exp_exc else 'no exception'}, got {got_exc.__name__ if got_exc else 'none'}",
                )
            )
        s.ref = new
        if not light:
            fails += self.compare(s, f"after:{op}")
        return fails

    def compare(self, s, ctx):
        bm, ref = s.bm, s.ref
        fails = []
        fwd = {a: b for a, b in ref}
        bck = {b: a for a, b in ref}

        def bad(what, msg):
            fails.append((f"{ctx}:{what}", f"{msg}; model pairs={sorted(map(repr, ref))}"))

        if dict(bm.fwd) != fwd:
            bad("fwd", f"forward view {bm.fwd!r} != model {fwd!r}")
        if dict(bm.bck) != bck:
            bad("bck", f"backward view {bm.bck!r} != model inverse {bck!r}")
        if {v: k for k, v in bm.fwd.items()} != dict(bm.bck) or len(bm.fwd) != len(bm.bck):
            bad("inverse", f"views are not mutual inverses: fwd={bm.fwd!r} bck={bm.bck!r}")
        if len(bm) != len(ref):
            bad("len", f"len {len(bm)} != {len(ref)}")
        it = list(bm)
        if sorted(map(repr, it)) != sorted(map(repr, fwd)):
            bad("iter", f"iteration {it!r} != live left keys {list(fwd)!r}")
        items = list(bm.items())
        if sorted(map(repr, items)) != sorted(map(repr, ref)):
            bad("items", f"items {items!r} != live pairs")
        for k in self.K:
            if bm.get_right(k) != fwd.get(k):
                bad("get_right", f"get_right({k!r}) = {bm.get_right(k)!r}, model {fwd.get(k)!r}")
            try:
                got = ("ok", bm[k])
            except KeyError:
                got = ("KeyError",)
            exp = ("ok", fwd[k]) if k in fwd else ("KeyError",)
            if got != exp:
                bad("getitem", f"bm[{k!r}] -> {got}, model {exp}")
        for v in self.V:
            if bm.get_left(v) != bck.get(v):
                bad("get_left", f"get_left({v!r}) = {bm.get_left(v)!r}, model {bck.get(v)!r}")
        return fails

    def canon(self, s):
        return tuple(sorted((repr(a), repr(b)) for a, b in s.ref))


def _ctor_cases(K, V):
    """Every mapping over the alphabet, injective or not."""
    for choice in itertools.product([None, *range(len(V))], repeat=len(K)):
        yield {i: c for i, c in enumerate(choice) if c is not None}


def _check_ctor(K, V, m, machine):
    from hugr.utils import BiMap, NotBijection

    mapping = {K[i]: V[c] for i, c in m.items()}
    injective = len(set(map(repr, mapping.values()))) == len(mapping)
    fails = []
    try:
        bm = BiMap(mapping)
        if not injective:
            fails.append(("ctor:non-injective-accepted", f"BiMap({mapping!r}) accepted a non-injective mapping"))
        else:
            s = S(bm)
            s.ref = set(mapping.items())
            fails += machine.compare(s, "ctor")
    except NotBijection:
        if injective:
            fails.append(("ctor:injective-rejected", f"BiMap({mapping!r}) raised NotBijection"))
    except Exception as e:  # noqa: BLE001
        fails.append(("ctor:exception", f"BiMap({mapping!r}) raised {type(e).__name__}"))
    return fails


def _check_alias(K, V, m, ev, machine):
    """Two maps built from the same dict: an operation on the first must leave the dict and the
    second map untouched, and the first must behave as the model says."""
    from hugr.utils import BiMap

    mapping = {K[i]: V[c] for i, c in m.items()}
    snapshot = dict(mapping)
    fails = []
    try:
        a, b = BiMap(mapping), BiMap(mapping)
    except Exception as e:  # noqa: BLE001
        return [("ctor:exception", f"BiMap({mapping!r}) raised {type(e).__name__}")]
    sa = S(a)
    sa.ref = set(snapshot.items())
    fails += machine.step(sa, ev)
    if mapping != snapshot:
        fails.append(("ctor:aliases-argument", f"after {ev} on BiMap(d) the caller's dict changed from {snapshot!r} to {mapping!r}"))
    sb = S(b)
    sb.ref = set(snapshot.items())
    for sig, msg in machine.compare(sb, "ctor-sibling"):
        fails.append((sig, f"a second map built from the same dict changed after {ev} on the first: {msg}"))
    return fails


def run(tier: str, seed: int) -> Result:
    K = permuted(ALPHA[tier], seed, "c18k")
    V = permuted(ALPHA[tier], seed, "c18v")
    m = Machine(K, V)
    col = Collector()
    st = e1.explore(m, max_depth=10**6, col=col, procs=1)
    n_ctor = 0
    n_noninj = 0
    for mp_ in _ctor_cases(K, V):
        n_ctor += 1
        mapping = {K[i]: V[c] for i, c in mp_.items()}
        if len(set(map(repr, mapping.values()))) != len(mapping):
            n_noninj += 1
        for sig, msg in _check_ctor(K, V, mp_, m):
            col.add(sig, msg, {"ctor": {str(i): c for i, c in mp_.items()}, "tier": tier})
    # construction must not alias the caller's mapping nor a sibling map built from it
    n_alias = 0
    for mp_ in _ctor_cases(K, V):
        mapping = {K[i]: V[c] for i, c in mp_.items()}
        if len(set(map(repr, mapping.values()))) != len(mapping):
            continue
        for ev in m.enabled(None):
            n_alias += 1
            for sig, msg in _check_alias(K, V, mp_, ev, m):
                col.add(sig, msg, {"ctor_alias": [{str(i): c for i, c in mp_.items()}, ev], "tier": tier})
    # none-argument constructors
    from hugr.utils import BiMap

    for bm in (BiMap(), BiMap(None), BiMap({})):
        s = S(bm)
        for sig, msg in m.compare(s, "ctor-empty"):
            col.add(sig, msg, {"ctor": {}, "tier": tier})
    for v in col.violations:
        v.case.setdefault("tier", tier)
        v.case.setdefault("seed", seed)
    cov = {
        "states": st.states,
        "transitions": st.transitions,
        "traces_validated_against_impl": st.transitions,
        "evaluations": st.transitions + n_ctor + n_alias,
        "constructor_alias_cases": n_alias,
        "distinct_nontrivial": st.states - 1,
        "rule": "state = partial bijection over the alphabet (non-trivial = non-empty); every one of the "
        "6 operations with every argument is executed on the implementation from every reachable state "
        "and compared with a set-of-pairs model; constructor on every mapping over the alphabet",
        "samples": col.samples or [[["insert_left", 0, 0]]],
        "exhaustive": st.closed,
        "alphabet": [repr(k) for k in K],
        "fixpoint_reached": st.closed,
        "depth_to_fixpoint": st.depth_completed,
        "constructor_cases": n_ctor,
        "constructor_non_injective_cases": n_noninj,
        "distinct_outcomes": len(st.outcomes),
    }
    return Result(cov, col.violations, ["BiMap.fwd / BiMap.bck are the documented forward/backward views"])


def replay(case) -> list[Violation]:
    tier = case.get("tier", "thorough")
    seed = case.get("seed", 0)
    K = permuted(ALPHA[tier], seed, "c18k")
    V = permuted(ALPHA[tier], seed, "c18v")
    m = Machine(K, V)
    out = []
    if "history" in case:
        s = m.initial()
        for ev in case["history"]:
            fails = m.step(s, ev)
            if fails:
                out += [Violation(sig, msg, case) for sig, msg in fails]
                break
    elif "ctor_alias" in case:
        mp_ = {int(i): c for i, c in case["ctor_alias"][0].items()}
        out += [Violation(sig, msg, case) for sig, msg in _check_alias(K, V, mp_, case["ctor_alias"][1], m)]
    else:
        mp_ = {int(i): c for i, c in case["ctor"].items()}
        out += [Violation(sig, msg, case) for sig, msg in _check_ctor(K, V, mp_, m)]
    return out
