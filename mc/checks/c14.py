"""C14 - constants inhabit the type they report.

E3: every value of the bounded value grammar; oracle R4 reads the *serialized* value and
computes the type it inhabits (tag range, arity, element types, std constant payloads),
compared with the serialized reported type; helper constructors are checked against the sum
type / tag the specification assigns; Const / LoadConst ports carry the reported type."""

from __future__ import annotations

import json

from mc.drivers import opterms as O
from mc.drivers import terms as T
from mc.engine.core import Collector, Result, Violation, pmap
from mc.ref.values import Inhabit, value_type


def _vjson(v):
    return json.loads(v._to_serial_root().model_dump_json())


def _tjson(t):
    return T.norm_type_json(json.loads(t._to_serial_root().model_dump_json()))


def _strip_fn(j):
    """Function values embed a whole hugr; the reference JSON has a placeholder there."""
    if isinstance(j, list):
        return [_strip_fn(x) for x in j]
    if isinstance(j, dict):
        if j.get("v") == "Function":
            return {"v": "Function", "hugr": "<fragment>"}
        return {k: _strip_fn(v) for k, v in j.items()}
    return j


def check_value(spec):
    from hugr import ops, tys
    from hugr.build.dfg import Dfg
    from hugr.hugr.node_port import Node, OutPort

    k = spec[0]
    fails = []

    def bad(what, msg):
        fails.append((f"{k}:{what}", f"{spec}: {msg}"))

    try:
        v = O.build_value(spec)
    except Exception as e:  # noqa: BLE001
        return [(f"{k}:build-raised", f"{spec}: constructing raised {type(e).__name__}: {e}")]
    try:
        doc = _vjson(v)
        reported = _tjson(v.type_())
    except Exception as e:  # noqa: BLE001
        return [(f"{k}:encode-raised", f"{spec}: type_()/serialization raised {type(e).__name__}: {e}")]
    # 0. the same value built from one-shot iterables (the helpers accept any Iterable)
    try:
        v2 = O.build_value(spec, one_shot=True)
        if _vjson(v2) != doc or _tjson(v2.type_()) != reported:
            bad("one-shot-iterables", f"built from one-shot iterators it serializes as {_strip_fn(_vjson(v2))} / {_tjson(v2.type_())}, from lists as {_strip_fn(doc)} / {reported}")
    except Exception as e:  # noqa: BLE001
        bad("one-shot-iterables:raised", f"building from one-shot iterators raised {type(e).__name__}: {e}")
    # 1. the document inhabits the reported type
    try:
        inhabited = value_type(doc)
        if inhabited != reported:
            bad("type-mismatch", f"serialized value inhabits {inhabited}, reports {reported}")
    except Inhabit as e:
        bad("not-inhabiting", f"serialized value does not inhabit its declared type: {e}")
    # 2. reported type is the one the specification assigns to this constructor
    exp_t = T.norm_type_json(T.ref_type_json(O.ref_value_type(spec)))
    if reported != exp_t:
        bad("reported-type", f"type_() = {reported}, specification assigns {exp_t}")
    # 3. the document is the published encoding of this value
    exp_doc = T.norm_type_json(O.ref_value_json(spec))
    if T.norm_type_json(_strip_fn(doc)) != _strip_fn(exp_doc):
        bad("document", f"serialized as {_strip_fn(doc)}, wire format says {_strip_fn(exp_doc)}")
    # 4. sugar helpers
    if O.is_sum_value(spec):
        if getattr(v, "tag", None) != O.ref_value_tag(spec):
            bad("tag", f"tag {getattr(v, 'tag', None)}, expected {O.ref_value_tag(spec)}")
        rows = T.ref_rows(O.ref_value_type(spec))
        if [[_tjson(t) for t in r] for r in v.type_().variant_rows] != [[T.norm_type_json(T.ref_type_json(t)) for t in r] for r in rows]:
            bad("variant-rows", f"type_().variant_rows = {v.type_().variant_rows}, expected {rows}")
    # 5. Const node and LoadConst
    c = ops.Const(v)
    kd = c.port_kind(OutPort(Node(0), 0))
    if not isinstance(kd, tys.ConstKind) or _tjson(kd.ty) != reported:
        bad("Const.port_kind", f"Const static port offers {kd}, value reports {reported}")
    if c.num_out != 1:
        bad("Const.num_out", f"Const.num_out = {c.num_out}")
    d = Dfg()
    ld = d.load(v)
    lop = d.hugr[ld].op
    if not isinstance(lop, ops.LoadConst) or _tjson(lop.type_) != reported:
        bad("load:LoadConst-type", f"load() built {lop!r} for a value reporting {reported}")
    else:
        ok = d.hugr.port_kind(ld.out(0))
        ik = d.hugr.port_kind(ld.inp(0))
        if not isinstance(ok, tys.ValueKind) or _tjson(ok.ty) != reported or not isinstance(ik, tys.ConstKind) or _tjson(ik.ty) != reported:
            bad("load:port-kinds", f"LoadConst ports {ik} / {ok}, value reports {reported}")
        srcs = [p for p in d.hugr.linked_ports(ld.inp(0))]
        if len(srcs) != 1 or not isinstance(d.hugr[srcs[0].node].op, ops.Const) or srcs[0].offset != 0:
            bad("load:link", f"LoadConst input linked to {srcs}")
    return fails


def _chunk(specs):
    return [(sig, msg, s) for s in specs for sig, msg in check_value(s)]


GRAMMAR = {"quick": "thorough", "thorough": "xdeep"}  # the term grammars are cheap: quick already uses the larger one


def run(tier: str, seed: int) -> Result:
    col = Collector()
    specs = O.value_specs(GRAMMAR[tier])
    for res in pmap(_chunk, [specs[i::48] for i in range(48)]):
        for sig, msg, s in res:
            col.add(sig, msg, {"value": s})
    kinds = {}
    for s in specs:
        kinds[s[0]] = kinds.get(s[0], 0) + 1
    col.sample({"value": specs[len(specs) // 2]})
    col.sample({"value": specs[-1]})
    n = len(specs)
    cov = {
        "states": n,
        "transitions": n,
        "traces_validated_against_impl": n,
        "evaluations": n,
        "distinct_nontrivial": sum(1 for s in specs if s[0] not in ("TRUE", "FALSE", "UnitV")),
        "rule": "distinct terms of the bounded value grammar: leaves (bools, unit sums, int widths 0..6, floats, strings, opaque "
        "constants, function values) closed under Tuple/Some/None/Left/Right/general Sum/Array/List/StaticArray to depth 2 "
        "(thorough 3) with rows of length <=2; oracle R4 on the serialized document",
        "samples": col.samples,
        "exhaustive": True,
        "values_per_kind": kinds,
    }
    return Result(cov, col.violations, ["R4: mc/ref/values.py (from hugr-core/src/ops/constant.rs)", "direct val.Sum(...) is only built with consistent arguments"])


def replay(case) -> list[Violation]:
    return [Violation(s, m, case) for s, m in check_value(case["value"])]
