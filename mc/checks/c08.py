"""C08 - inserting a HUGR embeds it isomorphically and disturbs nothing else.

E1 pairs: B ranges over every store state of the C04 machine up to a depth bound (multi-linked
ports, order links, self loops, holes from deleted nodes, reused indices, metadata via inserted
fragments) and over builder-made fragments; A over hosts (empty module, a wired Dfg, a host with
a freed index); every node of A as insertion parent.  Builder wrappers insert_nested / _cfg /
_conditional / _tail_loop are driven from root and from nested receiving builders with wires."""

from __future__ import annotations

from collections import Counter

from mc.checks import c04
from mc.drivers import bpm
from mc.engine import e1
from mc.engine.core import Collector, Result, Violation, pmap

BOUNDS = {
    "quick": dict(max_nodes=4, max_links=2, depth=3, root_links=True, req=(None, 3), inserts=("dfg",)),
    "thorough": dict(max_nodes=4, max_links=3, depth=4, root_links=True, req=(None, 3), inserts=("one", "dfg")),
}


def dump(h):
    """Store-level dump through public queries: per live node (op identity, parent, children,
    metadata, out-port count) and the multiset of links."""
    nodes = {}
    for n in h:
        d = h[n]
        nodes[n.idx] = (id(d.op), repr(d.op), d.parent.idx if d.parent else None, tuple(c.idx for c in h.children(n)), repr(sorted(d.metadata.items(), key=repr)), h.num_out_ports(n), h.num_in_ports(n))
    links = Counter((s.node.idx, s.offset, t.node.idx, t.offset) for s, t in h.links())
    return nodes, links


def hosts():
    from hugr import ops, tys
    from hugr.build.dfg import Dfg
    from hugr.hugr import Hugr
    from hugr.std.logic import Not

    def empty():
        return Hugr()

    def wired():
        d = Dfg(tys.Bool)
        n = d.add(Not(d.inputs()[0]), metadata={"host": 1})
        d.add_state_order(d.input_node, n)
        d.set_outputs(n, n)
        return d.hugr

    def holed():
        h = Hugr()
        a = h.add_node(ops.Custom("ha"), h.root, 1)
        b = h.add_node(ops.Custom("hb"), h.root)
        c = h.add_node(ops.Custom("hc"), b)
        h.add_link(a.out(0), c.inp(0))
        h.delete_node(a)
        return h

    return [("empty", empty), ("wired", wired), ("holed", holed)]


def check_insert(B, A, parent_idx, ctx, omit_parent=False):
    """Inserts B under A[parent_idx] (omit_parent: through the default `parent=None`, which means A's root); returns fails."""
    from hugr.hugr.node_port import Node

    fails = []

    def bad(what, msg):
        fails.append((what, f"{msg} | {ctx}"))

    b_before = dump(B)
    a_nodes, a_links = dump(A)
    b_children = {n.idx: [c.idx for c in B.children(n)] for n in B}
    try:
        mapping = A.insert_hugr(B) if omit_parent else A.insert_hugr(B, Node(parent_idx))
    except Exception as e:  # noqa: BLE001
        return [(f"insert:raised:{type(e).__name__}", f"insert_hugr raised {type(e).__name__}: {e} | {ctx}")]
    m = {k.idx: v.idx for k, v in mapping.items()}
    b_nodes = b_before[0]
    if sorted(m) != sorted(b_nodes):
        bad("mapping:domain", f"mapping keys {sorted(m)} are not B's nodes {sorted(b_nodes)}")
        return fails
    if len(set(m.values())) != len(m) or any(v in a_nodes for v in m.values()):
        bad("mapping:not-injective-or-reuses-live", f"mapping {m} is not a bijection onto fresh nodes (A had {sorted(a_nodes)})")
        return fails
    a2_nodes, a2_links = dump(A)
    if sorted(a2_nodes) != sorted(list(a_nodes) + list(m.values())):
        bad("nodes:extra-or-missing", f"A's nodes after insertion {sorted(a2_nodes)} != old {sorted(a_nodes)} + image {sorted(m.values())}")
        return fails
    broot = B.root.idx
    for b, (opid, oprepr, par, kids, meta, nout, nin) in b_nodes.items():
        got = a2_nodes[m[b]]
        if got[0] != opid and got[1] != oprepr:
            bad("node:op", f"B node {b} op {oprepr} became {got[1]}")
        exp_parent = parent_idx if b == broot else m[par]
        if got[2] != exp_parent:
            bad("node:parent", f"image of B node {b} hangs under {got[2]}, expected {exp_parent}")
        exp_kids = tuple(m[c] for c in kids)
        if got[3] != exp_kids:
            bad("node:child-order", f"children of image of B node {b} are {got[3]}, expected {exp_kids} (B's child order {kids})")
        if got[4] != meta:
            bad("node:metadata", f"metadata of B node {b} {meta} became {got[4]}")
        if got[5] != nout:
            bad("node:out-port-count", f"out-port count of B node {b} was {nout}, image has {got[5]}")
    exp_new = Counter({(m[s], so, m[t], to): k for (s, so, t, to), k in b_before[1].items()})
    new_links = a2_links - a_links
    lost_old = a_links - a2_links
    if lost_old:
        bad("host:links-lost", f"links A had before are gone: {dict(lost_old)}")
    if new_links != exp_new:
        extra, missing = new_links - exp_new, exp_new - new_links
        kind = "order" if any(k[1] == -1 for k in list(extra) + list(missing)) else ("multi" if any(v > 1 for v in exp_new.values()) else "plain")
        bad(f"links:{kind}", f"links of the inserted subgraph differ: extra={dict(extra)} missing={dict(missing)}")
    for idx, old in a_nodes.items():
        new = a2_nodes[idx]
        exp = old
        if idx == parent_idx:
            exp = (*old[:3], (*old[3], m[broot]), *old[4:])
        if new != exp:
            bad("host:node-changed", f"A node {idx} changed from {old[1:]} to {new[1:]}")
    # B can be inserted again: the second image is as good as the first and B is still untouched (metadata
    # dictionaries are shared between B and its images by design - a shallow copy - so nothing is demanded of
    # what happens when a caller edits them afterwards)
    if not fails:
        try:
            mapping2 = A.insert_hugr(B, Node(parent_idx))
        except Exception as e:  # noqa: BLE001
            bad(f"second-insert:raised:{type(e).__name__}", f"inserting the same B a second time raised {type(e).__name__}: {e}")
            return fails
        m2 = {k.idx: v.idx for k, v in mapping2.items()}
        a3_nodes, _ = dump(A)
        for b, (opid, oprepr, par, kids, meta, nout, nin) in b_nodes.items():
            if b in m2 and a3_nodes[m2[b]][3] != tuple(m2[c] for c in kids):
                bad("second-insert:child-order", f"second image of B node {b} has children {a3_nodes[m2[b]][3]}, expected {tuple(m2[c] for c in kids)}")
                break
        if dump(B) != b_before:
            bad("inserted-hugr-modified", "B was modified by the insertions")

    if dump(B) != b_before:
        bad("inserted-hugr-modified", "B was modified by the insertion")
    return fails


def _b_states(tier):
    """Histories of all distinct C04-machine states up to the depth bound."""
    b = BOUNDS[tier]
    m = c04.Machine(**b)
    seen = {e1._digest(m.canon(m.initial()))}
    frontier = [[]]
    allh = [[]]
    for _ in range(b["depth"]):
        nxt = []
        for hist in frontier:
            s = e1._prefix(m, hist)
            for ev in m.enabled(s):
                s2 = e1._prefix(m, hist)
                if m.step(s2, ev, light=True):
                    continue
                k = e1._digest(m.canon(s2))
                if k not in seen:
                    seen.add(k)
                    nxt.append(hist + [ev])
        allh += nxt
        frontier = nxt
    return m, allh


_M = None


def _work(args):
    tier, hist = args
    m = _M
    fails = []
    n = 0
    for hname, hf in hosts():
        A0 = hf()
        for p in [x.idx for x in A0]:
            B = e1._prefix(m, hist).h
            A = hf()
            n += 1
            for sig, msg in check_insert(B, A, p, f"host={hname} parent={p} B-history={hist}"):
                fails.append((sig, msg, {"store": hist, "host": hname, "parent": p, "tier": tier}))
        # the documented default: no parent given = under the root of the host
        B, A = e1._prefix(m, hist).h, hf()
        n += 1
        for sig, msg in check_insert(B, A, A.root.idx, f"host={hname} parent=default B-history={hist}", omit_parent=True):
            fails.append((sig + ":default-parent", msg, {"store": hist, "host": hname, "parent": None, "tier": tier}))
    return n, fails[:20]


# ------------------------------------------------------------------ builder wrappers
def builder_cases():
    """(name, thunk) -> thunk returns (A hugr, returned node, fragment hugr, fragment root, receiving parent node, wires)."""
    from hugr import ops, tys, val
    from hugr.build.cfg import Cfg
    from hugr.build.cond_loop import Conditional, TailLoop
    from hugr.build.dfg import Dfg
    from hugr.build.function import Module
    from hugr.std.logic import Not

    B = tys.Bool

    def frag_dfg():
        d = Dfg(B, B)
        a, b = d.inputs()
        n = d.add(Not(a), metadata={"f": [1, "é"]})
        with d.add_nested(b) as inner:
            x = inner.add(Not(n))  # non-local wire + order edge
            inner.set_outputs(x, inner.inputs()[0])
        d.add_state_order(n, inner.parent_node)
        d.set_outputs(inner[0], n, n)
        return d, 2, 3

    def frag_cfg():
        c = Cfg(B)
        with c.add_entry() as e:
            e.set_block_outputs(e.inputs()[0], e.inputs()[0])
        with c.add_successor(e[0]) as s:
            s.set_single_succ_outputs(*s.inputs())
        c.branch_exit(s[0])
        c.branch_exit(e[1])
        return c, 1, 1

    def frag_cond():
        c = Conditional(B, [B])
        for i in range(2):
            with c.add_case(i) as cs:
                cs.set_outputs(*cs.inputs(), *cs.inputs())
        return c, 2, 2

    def frag_loop():
        t = TailLoop([B], [B])
        a, b = t.inputs()
        tag = t.add_op(ops.Break(tys.Either([B], [B, B])), a, b)
        t.set_loop_outputs(tag, b)
        return t, 2, 3

    frags = {"insert_nested": frag_dfg, "insert_cfg": frag_cfg, "insert_conditional": frag_cond, "insert_tail_loop": frag_loop}

    def receivers():
        def root_dfg():
            d = Dfg(B, B)
            return d, d, d.hugr

        def nested_dfg():
            d = Dfg(B, B)
            n = d.add_nested(*d.inputs())
            return n, d, d.hugr

        def in_function():
            m = Module()
            f = m.define_function("main", [B, B])
            return f, m, m.hugr

        def hole_first():
            d = Dfg(B, B)
            x = d.add(Not(d.inputs()[0]))
            d.hugr.delete_node(x)
            return d, d, d.hugr

        return [("root-dfg", root_dfg), ("nested-dfg", nested_dfg), ("function", in_function), ("root-dfg-with-hole", hole_first)]

    cases = []
    for how, ff in frags.items():
        for rname, rf in receivers():
            def thunk(how=how, ff=ff, rf=rf):
                recv, _outer, A = rf()
                fb, n_in, n_out = ff()
                wires = list(recv.inputs())[:n_in]
                while len(wires) < n_in:
                    wires.append(recv.inputs()[0])
                if how == "insert_tail_loop":
                    node = recv.insert_tail_loop(fb, wires[:1], wires[1:])
                elif how == "insert_conditional":
                    node = recv.insert_conditional(fb, wires[0], *wires[1:])
                else:
                    node = getattr(recv, how)(fb, *wires)
                return A, node, fb.hugr, recv.parent_node, wires, n_out

            cases.append((f"{how}:{rname}", thunk, ff, rf))
    return cases


def check_builder_case(name, thunk, ff, rf):
    from hugr.hugr.node_port import OutPort

    fails = []

    def bad(what, msg):
        fails.append((f"builder:{what}:{name.split(':')[0]}", f"{name}: {msg}"))

    # reference dumps of fresh copies (the thunk builds its own objects)
    recv0, _o, A0 = rf()
    a_nodes, a_links = dump(A0)
    fb0, _, _ = ff()
    b_nodes, b_links = dump(fb0.hugr)
    try:
        A, node, Bh, recv_parent, wires, n_out = thunk()
    except Exception as e:  # noqa: BLE001
        import traceback

        return [(f"builder:raised:{name.split(':')[0]}", f"{name}: raised {type(e).__name__}: {e} {traceback.format_exc(limit=-2)[-300:]}")]
    a2_nodes, a2_links = dump(A)
    if a2_nodes[node.idx][2] != recv_parent.idx:
        bad("parent", f"inserted root {node.idx} hangs under {a2_nodes[node.idx][2]}, expected the receiving builder's node {recv_parent.idx}")
    # walk both hierarchies in parallel to build the bijection
    m = {}
    stack = [(Bh.root, node)]
    ok = True
    while stack:
        b, a = stack.pop()
        m[b.idx] = a.idx
        bk, ak = Bh.children(b), A.children(a)
        if len(bk) != len(ak):
            bad("hierarchy", f"B node {b.idx} has {len(bk)} children, its image {a.idx} has {len(ak)}")
            ok = False
            break
        stack += list(zip(bk, ak))
    if not ok:
        return fails
    for b in Bh:
        if repr(A[A_node(A, m[b.idx])].op) != repr(Bh[b].op):
            bad("op-or-child-order", f"B node {b.idx} ({Bh[b].op!r}) corresponds to {A[A_node(A, m[b.idx])].op!r}")
            break
        if dict(A[A_node(A, m[b.idx])].metadata) != dict(Bh[b].metadata):
            bad("metadata", f"metadata of B node {b.idx} not preserved")
        if A.num_out_ports(A_node(A, m[b.idx])) != Bh.num_out_ports(b):
            bad("out-port-count", f"B node {b.idx} has {Bh.num_out_ports(b)} out ports, image {A.num_out_ports(A_node(A, m[b.idx]))}")
    exp = Counter({(m[s], so, m[t], to): k for (s, so, t, to), k in dump(Bh)[1].items()})
    new_links = a2_links - a_links
    wire_links = Counter()
    for i, w in enumerate(wires):
        p = w.out_port()
        wire_links[(p.node.idx, p.offset, node.idx, i)] += 1
    inner = Counter({k: v for k, v in new_links.items() if k not in wire_links and not (k[1] == -1 and k[2] == node.idx)})
    if inner != exp:
        bad("links", f"links of the inserted subgraph differ: extra={dict(inner - exp)} missing={dict(exp - inner)}")
    if wire_links - new_links:
        bad("wires", f"given wires are not attached to the inserted root's inputs: missing {dict(wire_links - new_links)}")
    if a_links - a2_links:
        bad("host-links-lost", f"{dict(a_links - a2_links)}")
    if dump(Bh) != (b_nodes_like(Bh), dump(Bh)[1]):
        pass
    # handle returned knows the outputs (C16 overlap kept minimal): iterate
    try:
        got_n = len(list(node))
    except Exception as e:  # noqa: BLE001
        got_n = type(e).__name__
    if got_n != n_out:
        bad("returned-handle-outputs", f"returned handle iterates {got_n} outputs, the inserted root has {n_out}")
    return fails


def A_node(A, idx):
    from hugr.hugr.node_port import Node

    return Node(idx)


def b_nodes_like(h):
    return dump(h)[0]


def check_fragment_unchanged():
    """B is not modified by builder-level insertion."""
    fails = []
    for name, thunk, ff, rf in builder_cases():
        fb, n_in, _ = ff()
        before = dump(fb.hugr)
        recv, _o, A = rf()
        wires = list(recv.inputs())[:n_in]
        while len(wires) < n_in:
            wires.append(recv.inputs()[0])
        how = name.split(":")[0]
        try:
            if how == "insert_tail_loop":
                recv.insert_tail_loop(fb, wires[:1], wires[1:])
            elif how == "insert_conditional":
                recv.insert_conditional(fb, wires[0], *wires[1:])
            else:
                getattr(recv, how)(fb, *wires)
        except Exception:  # noqa: BLE001
            continue
        if dump(fb.hugr) != before:
            fails.append((f"builder:fragment-modified:{how}", f"{name}: the inserted builder's HUGR was modified"))
    return fails


def detached_metadata_cases():
    """B whose node-handle metadata dicts are detached from the node data (loaded from JSON and
    annotated afterwards; metadata dict replaced wholesale)."""
    import json as _json

    from hugr.hugr import Hugr

    def loaded_then_annotated():
        d, _, _ = builder_cases()[0][2]()
        B = Hugr.load_json(d.hugr.to_json())
        B[B.root].metadata["name"] = "loaded-root"
        for n in list(B)[1:3]:
            B[n].metadata["late"] = [n.idx, "é"]
        return B

    def replaced_dict():
        d, _, _ = builder_cases()[0][2]()
        B = d.hugr
        for n in list(B)[:3]:
            B[n].metadata = {"replaced": n.idx}
        return B

    fails = []
    n = 0
    for name, mk in (("loaded-then-annotated", loaded_then_annotated), ("metadata-dict-replaced", replaced_dict)):
        for hname, hf in hosts():
            for par in [x.idx for x in hf()]:
                n += 1
                for sig, msg in check_insert(mk(), hf(), par, f"B={name} host={hname} parent={par}"):
                    fails.append((f"{sig}:{name}", msg))
    return fails, n


def check_after_refused_insert():
    """insert_nested with a wire that cannot be used (it lives inside another nested region) is refused; whatever the
    refusal leaves in A, A stays a consistent hierarchy and the next insertion is an isomorphic embedding again."""
    import json

    from hugr import tys
    from hugr.build.dfg import Dfg
    from hugr.std.logic import Not

    fails = []
    for deletions in (0, 1, 2):
        outer = Dfg(tys.Bool)
        (a,) = outer.inputs()
        spare = [outer.add(Not(a)) for _ in range(2)]
        region = outer.add_nested(a)
        region.set_outputs(*region.inputs())
        for sp in spare[:deletions]:
            outer.hugr.delete_node(sp)  # free indices for the copies to take
        tmpl = bpm._frag_dfg()
        try:
            outer.insert_nested(tmpl, region.inputs()[0])
            fails.append(("refused-insert:accepted", "insert_nested accepted a wire from inside a sibling region"))
            continue
        except Exception:  # noqa: BLE001
            pass
        h = outer.hugr
        tag = f"refused-insert:{deletions}-freed"
        for stage in ("after-refusal", "after-next-insert"):
            if stage == "after-next-insert":
                good = bpm._frag_dfg()
                b_before = dump(good.hugr)
                node = outer.insert_nested(good, a)
                if [repr(h[c].op) for c in h.children(node)] != [repr(good.hugr[c].op) for c in good.hugr.children(good.hugr.root)]:
                    fails.append((f"{tag}:next-insert:children", f"children of the image after a refused insertion: {[repr(h[c].op) for c in h.children(node)]}"))
                if dump(good.hugr) != b_before:
                    fails.append((f"{tag}:next-insert:B-modified", "B modified"))
            listed = Counter()
            for n in h:
                for c in h.children(n):
                    listed[c.idx] += 1
                    try:
                        if h[c].parent is None or h[c].parent.idx != n.idx:
                            fails.append((f"{tag}:{stage}:child-disowns-parent", f"node {c.idx} is listed as a child of {n.idx} but names {h[c].parent} as its parent"))
                    except KeyError:
                        fails.append((f"{tag}:{stage}:dead-child", f"children({n.idx}) lists the deleted node {c.idx}"))
            for n in h:
                if n != h.root and listed[n.idx] != 1:
                    par = h[n].parent
                    fails.append((f"{tag}:{stage}:orphan", f"live node {n.idx} ({h[n].op!r}) is in {listed[n.idx]} children lists; it names {par} as its parent"))
                    break
    seen, out = set(), []
    for sig, msg in fails:
        if sig not in seen:
            seen.add(sig)
            out.append((sig, msg))
    return out


def run(tier: str, seed: int) -> Result:
    global _M
    col = Collector()
    _M, hists = _b_states(tier)
    res = pmap(_work, [(tier, h) for h in hists], chunksize=max(1, min(50, len(hists) // 128)))
    n_pairs = 0
    for n, fails in res:
        n_pairs += n
        for sig, msg, case in fails:
            col.add(sig, msg, case)
    bc = builder_cases()
    for name, thunk, ff, rf in bc:
        for sig, msg in check_builder_case(name, thunk, ff, rf):
            col.add(sig, msg, {"builder": name})
    for sig, msg in check_fragment_unchanged():
        col.add(sig, msg, {"builder": "fragment-unchanged"})
    for sig, msg in check_after_refused_insert():
        col.add(sig, msg, {"builder": "after-refused-insert"})
    dfails, n_det = detached_metadata_cases()
    for sig, msg in dfails:
        col.add(sig, msg, {"builder": "detached-metadata"})
    n_pairs += n_det
    # size ladder: B = every ladder HUGR (wide nodes, fan-out n, nesting depth n, n cases / blocks, reused indices ...)
    from mc.drivers import ladder

    n_ladder = 0
    for lcase in ladder.cases_for(tier, hosts=("dfg", "fn")):
        for hname, hf in hosts():
            A = hf()
            par = [x.idx for x in A][-1]
            n_ladder += 1
            for sig, msg in check_insert(ladder.build(lcase), A, par, f"B=ladder{lcase} host={hname} parent={par}"):
                col.add(f"{sig}:ladder-{lcase[0]}", msg, {"ladder": lcase, "host": hname, "parent": par})
    n_pairs += n_ladder
    col.sample({"B-history": hists[len(hists) // 2], "hosts": [h for h, _ in hosts()]})
    col.sample({"builder_case": bc[1][0]})
    cov = {
        "states": len(hists),
        "transitions": n_pairs + len(bc),
        "traces_validated_against_impl": n_pairs + len(bc),
        "evaluations": n_pairs + len(bc),
        "distinct_nontrivial": len(hists) - 1,
        "rule": "B = every distinct store state of the C04 machine up to the depth bound (non-trivial = not the empty module); for each B, "
        "every host x every node of the host as parent: insert_hugr and compare mapping, ops, parents, child order, metadata, out-port "
        "counts, link multiset incl. order links, host unchanged, B unchanged; plus insert_nested/_cfg/_conditional/_tail_loop from 4 "
        "receiving builders (root, nested, function body, host with a freed index); plus B = every size-ladder HUGR of mc/drivers/ladder.py "
        "inserted into every host",
        "samples": col.samples,
        "exhaustive": True,
        "bounds": {k: (list(v) if isinstance(v, tuple) else v) for k, v in BOUNDS[tier].items()},
        "insert_pairs": n_pairs,
        "ladder_inserts": n_ladder,
        "builder_cases": len(bc),
    }
    return Result(cov, col.violations, ["B states are produced by the C04 machine (checked against R1 there)", "metadata dictionaries may be shared objects; only their contents are compared"])


def replay(case) -> list[Violation]:
    if "ladder" in case:
        from mc.drivers import ladder

        A = dict(hosts())[case["host"]]()
        return [Violation(f"{s}:ladder-{case['ladder'][0]}", m, case) for s, m in check_insert(ladder.build(case["ladder"]), A, case["parent"], f"B=ladder{case['ladder']} host={case['host']} parent={case['parent']}")]
    if "builder" in case:
        if case["builder"] == "fragment-unchanged":
            return [Violation(s, m, case) for s, m in check_fragment_unchanged()]
        if case["builder"] == "after-refused-insert":
            return [Violation(s, m, case) for s, m in check_after_refused_insert()]
        if case["builder"] == "detached-metadata":
            return [Violation(s, m, case) for s, m in detached_metadata_cases()[0]]
        for name, thunk, ff, rf in builder_cases():
            if name == case["builder"]:
                return [Violation(s, m, case) for s, m in check_builder_case(name, thunk, ff, rf)]
        return []
    b = BOUNDS[case.get("tier", "quick")]
    m = c04.Machine(**b)
    B = e1._prefix(m, case["store"]).h
    A = dict(hosts())[case["host"]]()
    if case["parent"] is None:
        return [Violation(s + ":default-parent", mm, case) for s, mm in check_insert(B, A, A.root.idx, f"host={case['host']} parent=default B-history={case['store']}", omit_parent=True)]
    return [Violation(s, mm, case) for s, mm in check_insert(B, A, case["parent"], f"host={case['host']} parent={case['parent']} B-history={case['store']}")]
