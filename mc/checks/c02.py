"""C02 - JSON round trip of a HUGR is lossless and a fixed point.

E2 o E1: every complete builder program of the plan followed by every store-mutation history
up to the depth bound; oracle: load_json(to_json()) succeeds, re-serializes to the same JSON
value, and shows the same observable structure (operation encodings, hierarchy with child
order, metadata, multiset of links per port incl. order links) under the order-preserving
renumbering."""

from __future__ import annotations

import json
import os
from collections import Counter

from mc.checks.c03 import canonical_numbering
from mc.drivers import bpm, ladder, mutate
from mc.drivers.scenarios import SCENARIOS


def norm(j):
    """JSON value comparison: only arrays that are sets by schema meaning are order-insensitive;
    spellings (e.g. Unit vs General sums) must be preserved exactly."""
    if isinstance(j, list):
        return [norm(x) for x in j]
    if isinstance(j, dict):
        return {k: (sorted(v) if k in ("runtime_reqs", "es", "extension_delta", "extensions") and isinstance(v, list) and all(isinstance(x, str) for x in v) else norm(v)) for k, v in j.items()}
    return jleaf(j)

from mc.engine import e2
from mc.engine.core import Collector, Result, Violation, jleaf, jstrict

PLAN = {
    "quick": ([("D3", 2), ("C2", 2), ("M5", 2), ("D1", 2), ("D2", 2), ("D0", 2), ("C1", 2), ("L1", 2), ("G1", 2), ("M1", 2), ("M2", 2)], 1),
    # thorough = two phases (3 free calls x every single mutation, then 2 free calls x every pair of mutations): 3 free calls x
    # pairs of mutations would be ~30 times the first phase (hours)
    "thorough": ([("D3", 2), ("C2", 3), ("K1", 2), ("M5", 2), ("D1", 3), ("D2", 2), ("D0", 2), ("C1", 3), ("L1", 3), ("G1", 2), ("M1", 3), ("M2", 2)], 1),
    "thorough-2": ([("D3", 2), ("C2", 2), ("M5", 2), ("D1", 2), ("D2", 2), ("D0", 2), ("C1", 2), ("L1", 2), ("G1", 2), ("M1", 2), ("M2", 2)], 2),
}
_DEPTH = 1
_TIER = "quick"
#: second thorough phase (pairs of mutations): the first mutation is one of each of these kinds, the second any
PHASE2_KINDS = ("del", "deladd", "insert", "order", "meta", "reuse", "addnode", "dellink")


def enc_op(op):
    import hugr._serialization.ops as sops
    from hugr.hugr.node_port import Node

    return norm(json.loads(sops.OpType(root=op._to_serial(Node(0))).model_dump_json()))


def structure(h):
    """Observable structure through the public API, in terms of a numbering that depends on the
    hierarchy only (so any renumbering the serializer performs is tolerated)."""
    order, pos = canonical_numbering(h)
    out = []
    for n in order:
        d = h[n]
        links = Counter()
        for off in range(-1, h.num_out_ports(n)):
            for t in h.linked_ports(n.out(off)):
                links[(off, pos[t.node.idx], t.offset)] += 1
        inl = Counter()
        for off in range(-1, h.num_in_ports(n)):
            for s in h.linked_ports(n.inp(off)):
                inl[(off, pos[s.node.idx], s.offset)] += 1
        out.append(
            {
                "op": enc_op(d.op),
                "parent": pos[d.parent.idx] if d.parent is not None else None,
                "children": [pos[c.idx] for c in h.children(n)],
                "metadata": jstrict(dict(d.metadata)),
                "out_links": sorted(links.items()),
                "in_links": sorted(inl.items()),
                "order_out": sorted(pos[m.idx] for m in h.outgoing_order_links(n)),
                "order_in": sorted(pos[m.idx] for m in h.incoming_order_links(n)),
            }
        )
    all_links = Counter((pos[s.node.idx], s.offset, pos[t.node.idx], t.offset) for s, t in h.links())
    return out, all_links


def check_roundtrip(h, tag):
    from hugr.hugr import Hugr

    fails = []
    try:
        text = h.to_json()
    except Exception as e:  # noqa: BLE001
        return [(f"to_json-raised:{tag}", f"{type(e).__name__}: {e}")]
    try:
        h2 = Hugr.load_json(text)
    except Exception as e:  # noqa: BLE001
        return [(f"load-raised:{type(e).__name__}:{tag}", f"load_json(to_json()) raised {type(e).__name__}: {str(e)[:300]}")]
    try:
        text2 = h2.to_json()
    except Exception as e:  # noqa: BLE001
        return [(f"re-serialize-raised:{tag}", f"{type(e).__name__}: {e}")]
    d1, d2 = json.loads(text), json.loads(text2)
    if norm(d1) != norm(d2):
        keys = [k for k in set(d1) | set(d2) if norm(d1.get(k)) != norm(d2.get(k))]
        detail = ""
        if "nodes" in keys and len(d1["nodes"]) == len(d2["nodes"]):
            i = next(i for i, (a, b) in enumerate(zip(d1["nodes"], d2["nodes"])) if norm(a) != norm(b))
            diff = sorted(k for k in set(d1["nodes"][i]) | set(d2["nodes"][i]) if norm(d1["nodes"][i].get(k)) != norm(d2["nodes"][i].get(k)))
            detail = f" first differing node {i} ({d1['nodes'][i]['op']}): fields {diff}"
            keys = [k if k != "nodes" else f"nodes.{d1['nodes'][i]['op']}.{'+'.join(diff)}" for k in keys]
        fails.append((f"fixed-point:{'+'.join(sorted(keys))}:{tag}", f"re-serialized document differs in {sorted(keys)}{detail}"))
    s1, l1 = structure(h)
    s2, l2 = structure(h2)
    if len(s1) != len(s2):
        fails.append((f"structure:node-count:{tag}", f"{len(s1)} nodes before, {len(s2)} after"))
        return fails
    for i, (a, b) in enumerate(zip(s1, s2)):
        for key in a:
            if a[key] != b[key]:
                fails.append((f"structure:{key}:{tag}", f"node {i} ({a['op'].get('op')}): {key} before {str(a[key])[:200]} after {str(b[key])[:200]}"))
                break
        if fails:
            break
    if l1 != l2 and not any(f[0].startswith("structure:") for f in fails):
        fails.append((f"structure:links():{tag}", f"links() multiset changed: lost {dict(l1 - l2)} gained {dict(l2 - l1)}"))
    if h2.root.idx != 0 or h2[h2.root].parent is not None:
        fails.append((f"structure:root:{tag}", f"reloaded root is {h2.root}"))
    return fails


def oracle(sc, ctx, program):
    out = []

    def factory():
        return bpm.run(sc, program, observe=True).hugr  # the graph was looked at after every builder call

    # VERIF_C02_ONLY=loaded (seeded-change tooling only, never the registered commands): just the loaded-origin part
    hs = [] if os.environ.get("VERIF_C02_ONLY") == "loaded" else mutate.histories(factory, _DEPTH, _TIER, kinds=PHASE2_KINDS if _DEPTH >= 2 else None)
    for hist, h in hs:
        tag = "+".join(m[0] for m in hist) or "built"
        for sig, msg in check_roundtrip(h, tag):
            out.append((sig, f"{msg} | history={hist} | program={program}"))
    for sig, msg in loaded_origin(factory, _TIER):
        out.append((sig, f"{msg} | program={program}"))
    ctx.counters = dict(LAST_COUNTS)
    return out


LAST_COUNTS = {"loaded_copies_mutated_and_round_tripped": 0, "built_vs_loaded_differential_pairs": 0}


def loaded_origin(factory, tier):
    """Start from the other origin: the *loaded* copy L of the built HUGR H is mutated.  (a) every mutated L
    round-trips like any other HUGR; (b) differential, no hand-written expectation: the same mutation applied
    to H and (translated through the hierarchy numbering) to L leaves the two with the same observable
    structure - a reader that dropped something the queries do not show (port counts, free-index lists,
    link bookkeeping) gives itself away at the next mutation."""
    out = []
    LAST_COUNTS.update(loaded_copies_mutated_and_round_tripped=0, built_vs_loaded_differential_pairs=0)
    for hist, l in mutate.loaded_histories(factory, tier):
        LAST_COUNTS["loaded_copies_mutated_and_round_tripped"] += 1
        tag = "loaded+" + hist[1][0]
        if l is None:
            out.append((f"loaded-origin:mutation-raised:{hist[1][0]}", f"{hist[2][1]} | history={hist}"))
            continue
        for sig, msg in check_roundtrip(l, tag):
            out.append((sig, f"{msg} | history={hist}"))
    try:
        h0 = factory()
        l0 = mutate.load_copy(h0)
    except Exception:  # noqa: BLE001 - reported by check_roundtrip of the built HUGR
        return out
    for m in mutate.first_of_each(mutate.menu(h0, tier), mutate.LOADED_KINDS):
        ml = mutate.translate(m, h0, l0)
        if ml is None:
            continue
        h, l = factory(), mutate.load_copy(factory())
        mutate.observe(h)
        mutate.observe(l)
        try:
            mutate.apply(h, m)
        except Exception:  # noqa: BLE001 - the mutation is not applicable to the built HUGR either
            continue
        try:
            mutate.apply(l, ml)
        except Exception as e:  # noqa: BLE001
            out.append((f"loaded-origin:mutation-raised:{m[0]}", f"{m} succeeds on the built HUGR, {ml} on its loaded copy raised {type(e).__name__}: {e}"))
            continue
        LAST_COUNTS["built_vs_loaded_differential_pairs"] += 1
        (s1, k1), (s2, k2) = structure(h), structure(l)
        if len(s1) != len(s2):
            out.append((f"loaded-origin:differs:node-count:{m[0]}", f"after {m}: {len(s1)} nodes from the built HUGR, {len(s2)} from its loaded copy"))
            continue
        for i, (a, b) in enumerate(zip(s1, s2)):
            bad = [key for key in a if a[key] != b[key]]
            if bad:
                out.append((f"loaded-origin:differs:{bad[0]}:{m[0]}", f"after {m}: node {i} ({a['op'].get('op')}) {bad[0]} is {str(a[bad[0]])[:200]} from the built HUGR, {str(b[bad[0]])[:200]} from its loaded copy"))
                break
        else:
            if k1 != k2:
                out.append((f"loaded-origin:differs:links():{m[0]}", f"after {m}: links() lost {dict(k1 - k2)} gained {dict(k2 - k1)} on the loaded copy"))
    return out


LADDER_KINDS = ("deladd", "del", "meta", "order")


def ladder_judge(case):
    """The ladder HUGR as built and after every single store mutation of LADDER_KINDS."""
    out = []
    for hist, h in mutate.histories(lambda: ladder.build(case), 1, "quick", kinds=LADDER_KINDS):
        tag = "+".join(m[0] for m in hist) or "built"
        for sig, msg in check_roundtrip(h, tag):
            out.append((f"{sig}:ladder-{case[0]}", f"{msg} | history={hist} | ladder={case}"))
    for sig, msg in loaded_origin(lambda: ladder.build(case), "quick"):
        out.append((f"{sig}:ladder-{case[0]}", f"{msg} | ladder={case}"))
    return out


def _ladder_chunk(cases):
    return [(case, ladder_judge(case)) for case in cases]


def run_ladder(tier, col):
    from mc.engine.core import pmap

    cases = list(ladder.cases_for(tier, leftovers=True))
    for res in pmap(_ladder_chunk, [cases[i::64] for i in range(64)]):
        for case, fails in res:
            for sig, msg in fails:
                col.add(sig, msg, {"ladder": case, "tier": tier})
    return len(cases)


def run(tier: str, seed: int) -> Result:
    global _DEPTH, _TIER
    plan, _DEPTH = PLAN[tier]
    _TIER = tier
    col = Collector()
    r = e2.explore(SCENARIOS, oracle, plan)
    for sig, msg, case in r.fails:
        case["depth"] = _DEPTH
        case["tier"] = tier
        col.add(sig, msg, case)
    if tier == "thorough":
        plan2, _DEPTH = PLAN["thorough-2"]
        r2 = e2.explore(SCENARIOS, oracle, plan2)
        for sig, msg, case in r2.fails:
            case["depth"] = _DEPTH
            case["tier"] = tier
            col.add(sig, msg, case)
        r.states += r2.states
        r.transitions += r2.transitions
        r.complete_programs += r2.complete_programs
        r.nontrivial += r2.nontrivial
        plan = [plan, plan2]
    n_ladder = run_ladder(tier, col)
    cov = {
        "states": r.states,
        "transitions": r.transitions,
        "traces_validated_against_impl": r.transitions,
        "evaluations": r.complete_programs + n_ladder,
        "distinct_nontrivial": r.nontrivial,
        "rule": "every complete builder program of the plan x every store-mutation history up to the depth bound (delete leaf, add "
        "node with attribute-rich ops, order link, delete link, insert fragment, metadata over JSON values, index reuse); "
        "oracle: load succeeds, same JSON value (type-strict: true/1/1.0 differ), same observable structure under order-preserving "
        "renumbering; plus the size ladders of mc/drivers/ladder.py, each as built and after every single mutation; plus the other origin: the loaded "
        "copy of every program / ladder HUGR after one mutation of each kind round-trips, and the same mutation on the built HUGR and on its loaded "
        "copy leaves the same observable structure (counts under feature_counts 'oracle:*')",
        "samples": r.samples or [{"scenario": "D1", "program": []}],
        "exhaustive": True,
        "plan": plan,
        "mutation_depth": _DEPTH if tier != "thorough" else "phase 1: depth 1 over the 3-free-call plan; phase 2: depth 2 over the 2-free-call plan",
        "complete_programs": r.complete_programs,
        "programs_where_a_builder_call_raised": r.builder_raised,
        "feature_counts": r.features,
        "ladder_cases": n_ladder,
        "ladder": {"families": sorted(ladder.FAMILIES), "sizes": ladder.SIZES[tier], "caps": ladder.CAPS, "mutations": list(LADDER_KINDS)},
    }
    return Result(cov, col.violations, ["structure is read through public queries only", "runtime_reqs/extension sets compared as sets"])


def replay(case) -> list[Violation]:
    global _DEPTH, _TIER
    _DEPTH = case.get("depth", 1)
    _TIER = case.get("tier", "quick")
    if "ladder" in case:
        return [Violation(s, m, case) for s, m in ladder_judge(case["ladder"])]
    sc = SCENARIOS[case["scenario"]]
    ctx = bpm.run(sc, case["program"])
    return [Violation(s, m, case) for s, m in oracle(sc, ctx, case["program"])]
