"""C11 - extension resolution is conservative, idempotent and invisible on the wire.

E3 x registries: every type expression of a bounded grammar with opaque leaves (nested in sums,
function types, polymorphic bodies, type arguments, sequences, arguments of opaque types) and
every loaded HUGR of a small corpus with 1-3 opaque operations is resolved against every registry
of a registry family (each extension absent or holding any subset of its definitions)."""

from __future__ import annotations

import itertools
import json

from mc.drivers import terms as T
from mc.engine.core import Collector, Result, Violation, pmap

C, A = T.C, T.A
# extension -> (type defs: name -> (params, bound spec), op defs: name -> poly spec)
QB, BOOL = T.QB, T.BOOL
TA_ = ["Opaque", "x.ext", "Ta", C, []]
TB_ = lambda arg: ["Opaque", "x.ext", "Tb", T.ref_bound(arg), [["TA", arg]]]  # noqa: E731  bound from param 0
TC_ = ["Opaque", "y.ext", "Tc", A, []]
TZ_ = ["Opaque", "z.unknown", "Tz", C, [["NA", 1]]]
TM_ = ["Opaque", "x.ext", "Tmissing", C, []]

EXT_DEFS = {
    "x.ext": {
        "types": {"Ta": ([], ["Explicit", C]), "Tb": ([["TP", A]], ["FromParams", [0]])},
        "ops": {"oa": ["Poly", [], ["G", [TA_], [TA_, BOOL], []]], "ob": ["Poly", [["TP", A]], ["G", [["V", 0, A]], [TB_(["V", 0, A])], []]],
                # a definition whose signature is *computed* (no static type scheme) and that still takes type arguments
                "obin": None},
    },
    "y.ext": {"types": {"Tc": ([], ["Explicit", A])}, "ops": {"oc": ["Poly", [], ["G", [TC_, TA_], [TC_], []]]}},
}


def registries(tier):
    def variants(name):
        d = EXT_DEFS[name]
        tn, on = sorted(d["types"]), sorted(d["ops"])
        out = [None]
        for ts in itertools.chain.from_iterable(itertools.combinations(tn, r) for r in range(len(tn) + 1)):
            for os_ in itertools.chain.from_iterable(itertools.combinations(on, r) for r in range(len(on) + 1)):
                out.append((list(ts), list(os_)))
        return out

    for vx in variants("x.ext"):
        for vy in variants("y.ext"):
            yield {"x.ext": vx, "y.ext": vy}


def build_registry(rspec):
    from hugr import ext, tys
    from hugr.tys import TypeBound

    Bd = {"C": TypeBound.Copyable, "A": TypeBound.Any}
    reg = ext.ExtensionRegistry()
    for name, v in rspec.items():
        if v is None:
            continue
        e = ext.Extension(name, ext.Version(0, 1, 0))
        for tn in v[0]:
            params, b = EXT_DEFS[name]["types"][tn]
            e.add_type_def(ext.TypeDef(tn, f"{tn} description", [T.build_param(p) for p in params], ext.ExplicitBound(Bd[b[1]]) if b[0] == "Explicit" else ext.FromParamsBound(list(b[1]))))
        for on in v[1]:
            e.add_op_def(ext.OpDef(on, _opdef_sig(EXT_DEFS[name]["ops"][on]), f"definition of {on}"))
        reg.add_extension(e)
    return reg


def _opdef_sig(poly):
    from hugr import ext

    return ext.OpDefSig(None, binary=True) if poly is None else ext.OpDefSig(T.build_type(poly))


def has_type(rspec, extname, tid):
    v = rspec.get(extname)
    return v is not None and tid in v[0]


def has_op(rspec, extname, name):
    v = rspec.get(extname)
    return v is not None and name in v[1]


# ------------------------------------------------------------------ shapes
def shape(t, reg=None):
    from hugr import tys

    if isinstance(t, tys.ExtType):
        return ("ext", t.type_def.get_extension().name, t.type_def.name, tuple(shape_arg(a) for a in t.args))
    if isinstance(t, tys.Opaque):
        return ("opaque", t.extension, t.id, t.bound.value, tuple(shape_arg(a) for a in t.args))
    if isinstance(t, tys.Sum):
        return ("sum", tuple(tuple(shape(x) for x in r) for r in t.variant_rows))
    if isinstance(t, tys.PolyFuncType):
        return ("poly", repr(t.params), shape(t.body))
    if isinstance(t, tys.FunctionType):
        return ("fn", tuple(shape(x) for x in t.input), tuple(shape(x) for x in t.output), tuple(sorted(t.runtime_reqs)))
    return ("leaf", repr(t))


def shape_arg(a):
    from hugr import tys

    if isinstance(a, tys.TypeTypeArg):
        return ("TA", shape(a.ty))
    if isinstance(a, tys.SequenceArg):
        return ("Seq", tuple(shape_arg(x) for x in a.elems))
    return ("arg", repr(a))


def expected_shape(spec, rspec):
    """Reference: what resolution must produce for a type spec under a registry spec."""
    k = spec[0]
    if k == "Opaque":
        args = tuple(expected_arg(a, rspec) for a in spec[4])
        if has_type(rspec, spec[1], spec[2]):
            return ("ext", spec[1], spec[2], args)
        return ("opaque", spec[1], spec[2], spec[3], args)
    if T.is_sum(spec):
        return ("sum", tuple(tuple(expected_shape(x, rspec) for x in r) for r in T.ref_rows(spec)))
    if k == "G":
        return ("fn", tuple(expected_shape(x, rspec) for x in spec[1]), tuple(expected_shape(x, rspec) for x in spec[2]), tuple(sorted(spec[3])))
    if k == "Poly":
        return ("poly", repr([T.build_param(p) for p in spec[1]]), expected_shape(spec[2], rspec))
    return ("leaf", repr(T.build_type(spec)))


def expected_arg(a, rspec):
    if a[0] == "TA":
        return ("TA", expected_shape(a[1], rspec))
    if a[0] == "SeqA":
        return ("Seq", tuple(expected_arg(x, rspec) for x in a[1]))
    return ("arg", repr(T.build_arg(a)))


def type_exprs(tier):
    leaves = [TA_, TC_, TZ_, TM_, TB_(QB), TB_(TA_), TB_(TC_), ["Opaque", "x.ext", "Tb", A, [["TA", TB_(TC_)]]], BOOL, QB]
    ops_ = [l for l in leaves if l[0] == "Opaque"]
    out = list(leaves)

    def wrap(x):
        return [
            ["Sum", [[x], []]], ["Tuple", [BOOL, x]], ["Option", [x]], ["Either", [x], [QB]],
            ["G", [x], [BOOL], []], ["G", [], [x, x], ["r"]],
        ]

    l1 = [w for x in ops_ for w in wrap(x)]
    out += l1
    # function type inside a sum (no sibling opaque), sum inside function type, two levels
    for x in ops_[:5]:
        out += [["Option", [["G", [x], [x], []]]], ["Tuple", [BOOL, ["Either", [["G", [x], [], []]], [QB]]]], ["G", [["Option", [x]]], [["Tuple", [x, BOOL]]], []],
                ["Poly", [["TP", A]], ["G", [["V", 0, A], x], [x], []]], ["Opaque", "z.unknown", "Tz", C, [["TA", x], ["SeqA", [["TA", x], ["NA", 1]]]]],
                ["Opaque", "x.ext", "Tb", T.ref_bound(["Tuple", [x]]), [["TA", ["Tuple", [x]]]]]]
    # sequences nested in sequences (a List(List(Type)) parameter), inside opaque and unknown types
    for x in ops_[:4]:
        out += [["Opaque", "z.unknown", "Tz", C, [["SeqA", [["SeqA", [["TA", x]]], ["SeqA", []]]]]],
                ["Opaque", "z.unknown", "Tz", C, [["SeqA", [["SeqA", [["SeqA", [["TA", x], ["NA", 2]]]]]]]]]]
    # function types with several runtime requirements (ascending, descending, unsorted): resolution must hand the list back as it was
    for x in ops_[:3]:
        for rq in (["a", "b"], ["b", "a"], ["m.n", "z9", "a"], ["z", "y", "x", "w"], ["a.b", "c", "prelude", "x.ext", "q", "k"]):
            out.append(["G", [x], [BOOL], rq])
        out.append(["Tuple", [["G", [x], [x], ["r2", "r1", "r3"]]]])
    # sums in general form whose rows are all empty (not the unit-sum spelling), alone and next to an opaque type
    for rows in ([[]], [[], []], [[], [], []], []):
        out.append(["Sum", rows])
        out.append(["G", [["Sum", rows]], [ops_[0]], []])
        out.append(["Tuple", [["Sum", rows], ops_[1]]])
        out.append(["Opaque", "x.ext", "Tb", C, [["TA", ["Sum", rows]]]])
    # two opaque leaves side by side: each resolves (or stays opaque) independently of its sibling
    for x in ops_[:4]:
        for y in ops_[:4]:
            out.append(["Tuple", [x, y]])
    if tier == "thorough":
        l2 = [w for y in l1 for w in wrap(y)]
        out += l2
        for y in l2[::7]:
            out += wrap(y)[:5]
        for x in ops_:
            for y in ops_:
                out += [["Tuple", [x, y]], ["G", [x], [y], []], ["Sum", [[x], [y, x]]],
                        ["Opaque", "z.unknown", "Tz", C, [["TA", x], ["SeqA", [["TA", y]]]]]]
    seen, res = set(), []
    for t in out:
        if repr(t) not in seen:
            seen.add(repr(t))
            res.append(t)
    return res


def enc(t):
    return json.loads(t._to_serial().model_dump_json()) if type(t).__name__ == "PolyFuncType" else json.loads(t._to_serial_root().model_dump_json())


def check_type(spec, rspec):
    fails = []
    k = spec[0]
    reg = build_registry(rspec)
    ty = T.build_type(spec)
    doc0 = enc(ty)
    try:
        r1 = ty.resolve(reg)
    except Exception as e:  # noqa: BLE001
        return [(f"type:{k}:resolve-raised", f"{spec} under {rspec}: {type(e).__name__}: {e}")]
    exp = expected_shape(spec, rspec)
    got = shape(r1)
    if got != exp:
        where = _first_diff(got, exp)
        fails.append((f"type:{k}:resolution:{where}", f"{spec} under {rspec}: resolved to {got}, expected {exp}"))
    # definition-backed nodes carry the registry's definition objects
    for td_ext, td_name, obj in _ext_types(r1):
        if reg.extensions[td_ext].types[td_name] is not obj:
            fails.append((f"type:{k}:foreign-definition", f"{spec}: resolved node does not hold the registry's definition of {td_ext}.{td_name}"))
    if enc(r1) != doc0:
        fails.append((f"type:{k}:document-changed", f"{spec} under {rspec}: serialized form changed from {doc0} to {enc(r1)}"))
    if k != "Poly":
        if r1.type_bound() != ty.type_bound():
            fails.append((f"type:{k}:bound-changed", f"{spec}: bound {ty.type_bound()} -> {r1.type_bound()}"))
        try:
            m0, m1 = ty.to_model(), r1.to_model()
            if m0 != m1:
                fails.append((f"type:{k}:model-changed", f"{spec} under {rspec}: to_model() {m0} -> {m1}"))
        except Exception as e:  # noqa: BLE001
            fails.append((f"type:{k}:to_model-raised", f"{spec}: {type(e).__name__}: {e}"))
    r2 = r1.resolve(reg)
    if shape(r2) != shape(r1) or enc(r2) != enc(r1):
        fails.append((f"type:{k}:not-idempotent", f"{spec} under {rspec}: resolving twice differs from resolving once"))
    # the expression that was handed in is left as it was: resolving it against a registry that knows
    # nothing must still give the all-opaque form
    empty = {e: None for e in rspec}
    try:
        again = shape(ty.resolve(build_registry(empty)))
        if again != expected_shape(spec, empty):
            fails.append((f"type:{k}:input-mutated", f"{spec}: after resolve() under {rspec} the original expression itself resolves (under an empty registry) to {again}, expected {expected_shape(spec, empty)}"))
    except Exception as e:  # noqa: BLE001
        fails.append((f"type:{k}:input-mutated", f"{spec}: re-resolving the original raised {type(e).__name__}: {e}"))
    return fails


def _first_diff(a, b):
    if isinstance(a, tuple) and isinstance(b, tuple) and a and b and isinstance(a[0], str) and isinstance(b[0], str):
        if a[0] != b[0]:
            return f"{b[0]}-expected-got-{a[0]}"
        for x, y in zip(a[1:], b[1:]):
            if x != y:
                d = _first_diff(x, y)
                return f"in-{a[0]}:{d}"
    if isinstance(a, tuple) and isinstance(b, tuple):
        for x, y in zip(a, b):
            if x != y:
                return _first_diff(x, y)
    return "differs"


def _ext_types(t):
    from hugr import tys

    if isinstance(t, tys.ExtType):
        yield (t.type_def.get_extension().name, t.type_def.name, t.type_def)
        for a in t.args:
            yield from _ext_args(a)
    elif isinstance(t, tys.Opaque):
        for a in t.args:
            yield from _ext_args(a)
    elif isinstance(t, tys.Sum):
        for r in t.variant_rows:
            for x in r:
                yield from _ext_types(x)
    elif isinstance(t, tys.PolyFuncType):
        yield from _ext_types(t.body)
    elif isinstance(t, tys.FunctionType):
        for x in [*t.input, *t.output]:
            yield from _ext_types(x)


def _ext_args(a):
    from hugr import tys

    if isinstance(a, tys.TypeTypeArg):
        yield from _ext_types(a.ty)
    elif isinstance(a, tys.SequenceArg):
        for x in a.elems:
            yield from _ext_args(x)


# ------------------------------------------------------------------ HUGRs with opaque operations
def hugr_docs():
    """Serialized HUGRs with opaque (Custom) operations, as a foreign writer or hugr-py would emit them."""
    from hugr import ops, tys
    from hugr.build.dfg import Dfg

    ta, tc = T.build_type(TA_), T.build_type(TC_)

    def custom(extn, name, ins, outs, reqs, args=(), desc=""):
        return ops.Custom(name, tys.FunctionType(ins, outs, list(reqs)), desc, extn, list(args))

    docs = []
    for reqs_style in ("owner", "empty", "extra"):
        rq = {"owner": (lambda e: [e]), "empty": (lambda e: []), "extra": (lambda e: ["another.ext", e, "zz.last"])}[reqs_style]
        d = Dfg(ta)
        n = d.add(custom("x.ext", "oa", [ta], [ta, tys.Bool], rq("x.ext"), desc="doc text")(d.inputs()[0]))
        d.set_outputs(*n)
        docs.append((f"oa:{reqs_style}", d.hugr.to_json(), [("x.ext", "oa")]))
        d = Dfg(tc, ta)
        c, a = d.inputs()
        n1 = d.add(custom("y.ext", "oc", [tc, ta], [tc], rq("y.ext"))(c, a))
        tb = T.build_type(TB_(TC_))
        n2 = d.add(custom("x.ext", "ob", [tc], [tb], rq("x.ext"), [tc.type_arg()], "polymorphic")(n1))
        n3 = d.add(custom("z.unknown", "oz", [tb], [tb], rq("z.unknown"), [tys.SequenceArg([tb.type_arg()])])(n2))
        d.set_outputs(n3)
        docs.append((f"oc-ob-oz:{reqs_style}", d.hugr.to_json(), [("y.ext", "oc"), ("x.ext", "ob"), ("z.unknown", "oz")]))
    # the same polymorphic op at two different instantiations, one of them in a nested region
    d = Dfg(tc, ta)
    c, a = d.inputs()
    tb_c, tb_a = T.build_type(TB_(TC_)), T.build_type(TB_(TA_))
    n1 = d.add(custom("x.ext", "ob", [tc], [tb_c], ["x.ext"], [tc.type_arg()])(c))
    with d.add_nested(a) as inner:
        n2 = inner.add(custom("x.ext", "ob", [ta], [tb_a], ["x.ext"], [ta.type_arg()])(inner.inputs()[0]))
        inner.set_outputs(n2)
    d.set_outputs(n1, *inner)
    docs.append(("ob-twice", d.hugr.to_json(), [("x.ext", "ob"), ("x.ext", "ob")]))
    # an op whose definition computes its signature: type arguments (a type, a sequence of types) hold opaque types as well
    d = Dfg(tc, ta)
    c, a = d.inputs()
    n1 = d.add(custom("x.ext", "obin", [tc, ta], [tb_c], ["x.ext"], [tc.type_arg(), tys.SequenceArg([ta.type_arg(), tb_a.type_arg()]), tys.BoundedNatArg(2)])(c, a))
    d.set_outputs(n1)
    docs.append(("obin", d.hugr.to_json(), [("x.ext", "obin")]))
    # an op whose name the extension may lack
    d = Dfg(ta)
    n = d.add(custom("x.ext", "omissing", [ta], [], ["x.ext"])(d.inputs()[0]))
    d.set_outputs()
    docs.append(("omissing", d.hugr.to_json(), [("x.ext", "omissing")]))
    return docs


def hugr_view(h):
    """What must not change: per node the serialized op without its description, port types, bounds."""
    from hugr.hugr.node_port import Node

    out = []
    for n in h:
        op = h[n].op
        j = json.loads(op._to_serial(Node(0)).model_dump_json())
        desc = j.pop("description", None)
        sig = None
        if hasattr(op, "outer_signature"):
            s = op.outer_signature()
            sig = ([enc(t) for t in s.input], [enc(t) for t in s.output], [t.type_bound().value for t in [*s.input, *s.output]])
        pts = []
        if sig is not None:
            for i in range(len(sig[1])):
                pt = h.port_type(n.out(i))
                pts.append(enc(pt) if pt is not None else None)
        out.append({"op": j, "description": desc, "signature": sig, "out_port_types": pts})
    return out


def check_hugr(di, rspec):
    from hugr import ops
    from hugr.hugr import Hugr

    name, text, opnames = hugr_docs()[di]
    reg = build_registry(rspec)
    fails = []
    h = Hugr.load_json(text)
    v0 = hugr_view(h)
    j0 = json.loads(h.to_json())
    try:
        m0 = h.to_model() if False else None
    except Exception:  # noqa: BLE001
        m0 = None
    try:
        h.resolve_extensions(reg)
    except Exception as e:  # noqa: BLE001
        return [(f"hugr:{name}:resolve-raised", f"{name} under {rspec}: {type(e).__name__}: {e}")]
    v1 = hugr_view(h)
    customs = [(n, h[n].op) for n in h if isinstance(h[n].op, (ops.Custom, ops.ExtOp))]
    for (n, op), (extn, opn) in zip(customs, opnames):
        should = has_op(rspec, extn, opn)
        is_res = isinstance(op, ops.ExtOp)
        if should != is_res:
            fails.append((f"hugr:op-resolution:{'missed' if should else 'spurious'}", f"{name} under {rspec}: op {extn}.{opn} {'resolved' if is_res else 'left opaque'}, registry {'has' if should else 'lacks'} the definition"))
        if is_res:
            if op._op_def is not reg.extensions[extn].operations[opn]:
                fails.append(("hugr:foreign-definition", f"{name}: resolved op does not hold the registry's definition"))
            # opaque types of the signature and type args are resolved like any type expression
            sigs = shape(op.outer_signature())
            for td_ext, td_name, obj in [*_ext_types(op.outer_signature()), *[x for a in op.args for x in _ext_args(a)]]:
                if not has_type(rspec, td_ext, td_name) or reg.extensions[td_ext].types[td_name] is not obj:
                    fails.append(("hugr:signature-type-resolution", f"{name} under {rspec}: signature {sigs} holds a definition the registry lacks"))
            for leaf in _opaque_leaves(op.outer_signature()):
                if has_type(rspec, leaf[0], leaf[1]):
                    fails.append(("hugr:signature-type-unresolved", f"{name} under {rspec}: type {leaf[0]}.{leaf[1]} in the resolved op's signature was left opaque"))
            for leaf in [x for a in op.args for x in _opaque_arg_leaves(a)]:
                if has_type(rspec, leaf[0], leaf[1]):
                    fails.append(("hugr:type-arg-unresolved", f"{name} under {rspec}: type {leaf[0]}.{leaf[1]} in the type arguments of resolved op {extn}.{opn} was left opaque"))
    for a, b in zip(v0, v1):
        if a["op"] != b["op"]:
            keys = [k for k in a["op"] if a["op"][k] != b["op"].get(k)]
            fails.append((f"hugr:document-changed:{'+'.join(keys)}", f"{name} under {rspec}: node document changed in {keys}: {a['op']} -> {b['op']}"))
        if a["signature"] != b["signature"]:
            fails.append(("hugr:signature-changed", f"{name} under {rspec}: signature/bounds changed {a['signature']} -> {b['signature']}"))
        if a["out_port_types"] != b["out_port_types"]:
            fails.append(("hugr:port-types-changed", f"{name}: port types changed"))
        if b["description"] != a["description"]:
            extn, opn = a["op"].get("extension"), a["op"].get("name")
            allowed = {a["description"]}
            if has_op(rspec, extn, opn):
                allowed.add(reg.extensions[extn].operations[opn].description)
            if b["description"] not in allowed:
                fails.append(("hugr:description", f"{name}: description {a['description']!r} became {b['description']!r}, neither the original nor the definition's"))
    j1 = json.loads(h.to_json())
    if j0["edges"] != j1["edges"] or len(j0["nodes"]) != len(j1["nodes"]):
        fails.append(("hugr:graph-changed", f"{name}: edges or node count changed by resolution"))
    # using the resolved operations (their names, equality, signatures, a drawing) is not a way to change the document
    for n in h:
        op = h[n].op
        for f in (lambda: op.name(), lambda: op == op, lambda: repr(op), lambda: op.outer_signature(), lambda: op.num_out, lambda: getattr(op, "ext_op", None)):
            try:
                f()
            except Exception:  # noqa: BLE001
                pass
    try:
        h.render_dot()
    except Exception:  # noqa: BLE001
        pass
    if hugr_view(h) != v1 or json.loads(h.to_json()) != j1:
        fails.append(("hugr:document-changed-by-use", f"{name} under {rspec}: after looking at the resolved operations (name, ==, signature, drawing) the HUGR serializes differently"))
    v2 = None
    try:
        h.resolve_extensions(reg)
        v2 = hugr_view(h)
    except Exception as e:  # noqa: BLE001
        fails.append(("hugr:second-resolve-raised", f"{name}: {type(e).__name__}: {e}"))
    if v2 is not None and v2 != v1:
        fails.append(("hugr:not-idempotent", f"{name} under {rspec}: resolving twice differs from resolving once"))
    return fails


def second_registries():
    """Registries applied *after* the first one: nothing, one extension only, everything."""
    full = {name: (sorted(d["types"]), sorted(d["ops"])) for name, d in EXT_DEFS.items()}
    return [{n: None for n in EXT_DEFS}, {"x.ext": full["x.ext"], "y.ext": None}, {"x.ext": None, "y.ext": full["y.ext"]}, full]


def check_hugr_sequence(di, rspec1, rspec2):
    """resolve_extensions(r1) then resolve_extensions(r2): an op is definition-backed afterwards exactly when
    r1 or r2 holds its definition (a registry that lacks it leaves the HUGR untouched), document unchanged."""
    from hugr import ops
    from hugr.hugr import Hugr

    name, text, opnames = hugr_docs()[di]
    fails = []
    h = Hugr.load_json(text)
    v0 = hugr_view(h)
    try:
        h.resolve_extensions(build_registry(rspec1))
        v1 = hugr_view(h)
        h.resolve_extensions(build_registry(rspec2))
    except Exception as e:  # noqa: BLE001
        return [("hugr:sequence:resolve-raised", f"{name} under {rspec1} then {rspec2}: {type(e).__name__}: {e}")]
    customs = [(n, h[n].op) for n in h if isinstance(h[n].op, (ops.Custom, ops.ExtOp))]
    for (n, op), (extn, opn) in zip(customs, opnames):
        should = has_op(rspec1, extn, opn) or has_op(rspec2, extn, opn)
        is_res = isinstance(op, ops.ExtOp)
        if should != is_res:
            which = "demoted" if has_op(rspec1, extn, opn) and not is_res else ("missed" if should else "spurious")
            fails.append((f"hugr:sequence:{which}", f"{name} under {rspec1} then {rspec2}: op {extn}.{opn} is {'definition-backed' if is_res else 'opaque'} after both resolutions"))
    v2 = hugr_view(h)
    for a, b in zip(v0, v2):
        if a["op"] != b["op"] or a["signature"] != b["signature"] or a["out_port_types"] != b["out_port_types"]:
            fails.append(("hugr:sequence:document-changed", f"{name} under {rspec1} then {rspec2}: node document / signature / port types changed: {a['op']} -> {b['op']}"))
            break
    return fails


def check_refused_registration(rspec):
    """A second extension of the same name is refused (ExtensionExists) and the registry keeps the first:
    resolution afterwards is what it was before the refused call."""
    from hugr import ext

    fails = []
    reg = build_registry(rspec)
    for name, v in rspec.items():
        if v is None:
            continue
        clash = ext.Extension(name, ext.Version(9, 9, 9))
        for tn, (params, b) in EXT_DEFS[name]["types"].items():
            if tn not in v[0]:  # the clashing extension defines exactly what the registered one lacks
                clash.add_type_def(ext.TypeDef(tn, "clash", [T.build_param(p) for p in params], ext.ExplicitBound(__import__("hugr").tys.TypeBound.Any)))
        for on, poly in EXT_DEFS[name]["ops"].items():
            if on not in v[1]:
                clash.add_op_def(ext.OpDef(on, _opdef_sig(poly), "clash"))
        try:
            reg.add_extension(clash)
            fails.append(("registry:duplicate-accepted", f"{rspec}: a second extension named {name} was accepted"))
        except ext.ExtensionRegistry.ExtensionExists:
            pass
        except Exception as e:  # noqa: BLE001
            fails.append(("registry:duplicate-raised-other", f"{rspec}: {type(e).__name__}: {e}"))
    for spec in (TA_, TB_(TC_), TC_, TM_):
        got = shape(T.build_type(spec).resolve(reg))
        if got != expected_shape(spec, rspec):
            fails.append(("registry:changed-by-refused-registration", f"{rspec}: after a refused duplicate registration {spec} resolves to {got}, expected {expected_shape(spec, rspec)}"))
    return fails


def _opaque_arg_leaves(a):
    from hugr import tys

    if isinstance(a, tys.TypeTypeArg):
        yield from _opaque_leaves(a.ty)
    elif isinstance(a, tys.SequenceArg):
        for x in a.elems:
            yield from _opaque_arg_leaves(x)


def _opaque_leaves(t):
    from hugr import tys

    if isinstance(t, tys.Opaque):
        yield (t.extension, t.id)
        for a in t.args:
            yield from _opaque_arg_leaves(a)
    elif isinstance(t, tys.ExtType):
        for a in t.args:
            yield from _opaque_arg_leaves(a)
    elif isinstance(t, tys.Sum):
        for r in t.variant_rows:
            for x in r:
                yield from _opaque_leaves(x)
    elif isinstance(t, tys.FunctionType):
        for x in [*t.input, *t.output]:
            yield from _opaque_leaves(x)


def model_invariance(rspec):
    """to_model() of a module with opaque ops/types is the same before and after resolution."""
    from hugr import ops, tys
    from hugr.build.function import Module
    from hugr.hugr import Hugr

    fails = []
    ta, tc = T.build_type(TA_), T.build_type(TC_)
    m = Module()
    f = m.define_function("main", [tc, ta])
    c, a = f.inputs()
    n1 = f.add(ops.Custom("oc", tys.FunctionType([tc, ta], [tc], ["y.ext"]), "", "y.ext")(c, a))
    tb = T.build_type(TB_(TC_))
    n2 = f.add(ops.Custom("ob", tys.FunctionType([tc], [tb], ["x.ext"]), "", "x.ext", [tc.type_arg()])(n1))
    f.set_outputs(n2)
    h = Hugr.load_json(m.hugr.to_json())
    try:
        m0 = h.to_model()
        h.resolve_extensions(build_registry(rspec))
        m1 = h.to_model()
    except Exception as e:  # noqa: BLE001
        return [("model:raised", f"under {rspec}: {type(e).__name__}: {e}")]
    if m0 != m1:
        fails.append(("model:changed-by-resolution", f"under {rspec}: the exported model differs before/after resolve_extensions"))
    return fails


def _work(item):
    kind, a, rspec = item
    if kind == "type":
        fs = check_type(a, rspec)
    elif kind == "hugr":
        fs = check_hugr(a, rspec)
    elif kind == "hugr-seq":
        fs = check_hugr_sequence(a[0], rspec, second_registries()[a[1]])
    elif kind == "refused-registration":
        fs = check_refused_registration(rspec)
    else:
        fs = model_invariance(rspec)
    return [(s, m, [kind, a, rspec]) for s, m in fs]


def _chunk(items):
    out = []
    for it in items:
        try:
            out += _work(it)
        except Exception as e:  # noqa: BLE001
            import traceback

            out.append(("harness-exception", f"{it}: {type(e).__name__}: {e} {traceback.format_exc(limit=-2)[-300:]}", list(it)))
    return out


def run(tier: str, seed: int) -> Result:
    col = Collector()
    regs = list(registries(tier))
    exprs = type_exprs(tier)
    items = [("type", t, r) for t in exprs for r in regs]
    items += [("hugr", i, r) for i in range(len(hugr_docs())) for r in regs]
    items += [("model", None, r) for r in regs]
    items += [("hugr-seq", [i, j], r) for i in range(len(hugr_docs())) for j in range(len(second_registries())) for r in regs]
    items += [("refused-registration", None, r) for r in regs]
    for res in pmap(_chunk, [items[i::64] for i in range(64)]):
        for sig, msg, it in res:
            col.add(sig, msg, {"item": it})
    col.sample({"type": exprs[len(exprs) // 2], "registry": regs[len(regs) // 2]})
    col.sample({"hugr": hugr_docs()[1][0], "registry": regs[-1]})
    n = len(items)
    cov = {
        "states": len(exprs) + len(hugr_docs()),
        "transitions": n,
        "traces_validated_against_impl": n,
        "evaluations": n,
        "distinct_nontrivial": n - len(regs),
        "rule": f"{len(exprs)} type expressions (opaque leaves nested to depth 2-3 in sums, function types, fn-in-sum, polymorphic bodies, type "
        f"args, sequences, args of opaque types) x {len(regs)} registries (each of 2 extensions absent or holding any subset of its definitions); "
        f"{len(hugr_docs())} loaded HUGRs with 1-3 opaque ops (owner / empty runtime_reqs, unknown extension, missing op) x registries; "
        "model export before/after; every loaded HUGR also resolved against a second registry afterwards (none / one extension / all); a "
        "refused duplicate registration leaves the registry as it was; the expression handed to resolve() is not modified; "
        "oracle = reference resolution by registry membership",
        "samples": col.samples,
        "exhaustive": True,
        "registries": len(regs),
        "type_expressions": len(exprs),
        "hugr_documents": len(hugr_docs()),
    }
    return Result(cov, col.violations, ["opaque types carry the bound their definition computes (documents a valid writer produces)"])


def replay(case) -> list[Violation]:
    kind, a, rspec = case["item"]
    return [Violation(s, m, case) for s, m, _ in _chunk([(kind, a, rspec)])]
