"""C19 - shot results convert to register bitstrings by the documented convention.

E4: every shot over a tag x value alphabet up to a length bound, and every multi-shot result
over a reduced shot set x strictness flags, against the R7 write-replay model."""

from __future__ import annotations

import itertools
from collections import Counter

from mc.engine.core import Collector, Result, Violation, pmap

TAGS = ["c", "c[0]", "c[2]", "c[10]", "d", "d[1]", "q\u00e9[1]", "q\u00e9"]
VALUES = [0, 1, True, False, [0, 1], [1], [], 2, 0.5, [0, 2], [True, 0], 1.0, 0.0]  # 1.0 == True and 0.0 == False in Python, but they are not bits
BOUNDS = {
    "quick": dict(shot_len=3, res_shots=2),
    "thorough": dict(shot_len=4, res_shots=3),
}

import re

_IDX = re.compile(r"^([a-z][\w_]*)\[(\d+)\]$")


# ------------------------------------------------------------------ R7 reference model
def _bit(v):
    if isinstance(v, (int, bool)) and not isinstance(v, float) and v in (0, 1):
        return "1" if v else "0"
    raise ValueError(v)


def ref_register_bits(entries):
    regs: dict[str, list[str]] = {}
    for tag, data in entries:
        m = _IDX.match(tag)
        if m:
            name, i = m.group(1), int(m.group(2))
            bits = regs.setdefault(name, [])
            while len(bits) <= i:
                bits.append("0")
            bits[i] = _bit(data)
        elif isinstance(data, list):
            regs[tag] = [_bit(v) for v in data]
        else:
            regs[tag] = [_bit(data)]
    return {k: "".join(v) for k, v in regs.items()}


def ref_collate(entries):
    out: dict[str, list] = {}
    for tag, data in entries:
        out.setdefault(tag, []).append(data)
    return out


def _flat(x):
    for i in x:
        if isinstance(i, list):
            yield from _flat(i)
        else:
            yield i


def _try(f):
    try:
        return ("ok", f())
    except ValueError:
        return ("ValueError",)
    except Exception as e:  # noqa: BLE001
        return ("exc", type(e).__name__)


def _shape(entries):
    """Coarse, stable description of what a shot contains (for signatures)."""
    tags = [t for t, _ in entries]
    regs = [(_IDX.match(t).group(1) if _IDX.match(t) else t) for t in tags]
    feats = []
    if len(set(tags)) < len(tags):
        feats.append("dup-tag")
    if any(isinstance(v, bool) for _, v in entries) or any(isinstance(x, bool) for _, v in entries if isinstance(v, list) for x in v):
        feats.append("bool")
    if len(set(regs)) < len(regs) and len(set(tags)) == len(tags):
        feats.append("same-reg-mixed")
    bad = False
    for _, v in entries:
        for x in v if isinstance(v, list) else [v]:
            try:
                _bit(x)
            except ValueError:
                bad = True
    if bad:
        feats.append("non-bit")
    return "+".join(feats) or "plain"


def check_shot(entries):
    from hugr.qsystem.result import QsysShot

    entries = [(t, v) for t, v in entries]
    fails = []
    exp = _try(lambda: ref_register_bits(entries))
    shot = QsysShot(list(entries))
    got = _try(lambda: shot.to_register_bits())
    if got != exp:
        fails.append((f"to_register_bits:{_shape(entries)}", f"shot {entries!r}: to_register_bits -> {got}, write-replay model -> {exp}"))
    # the answer is a function of the entries: asking the same shot again (also after a refusal) changes nothing
    again = _try(lambda: shot.to_register_bits())
    if again != got and got == exp:
        fails.append((f"to_register_bits:second-call:{_shape(entries)}", f"shot {entries!r}: first call -> {got}, second call on the same object -> {again}"))
    elif got[0] == "ok":
        for r, s in got[1].items():
            if set(s) - {"0", "1"}:
                fails.append(("to_register_bits:chars", f"shot {entries!r}: register {r} = {s!r} has characters other than 0/1"))
    # append() builds the same shot
    sh = QsysShot()
    for t, v in entries:
        sh.append(t, v)
    if sh.entries != list(entries):
        fails.append(("append", f"append() built {sh.entries!r}"))
    exp_c = ref_collate(entries)
    got_c = _try(lambda: QsysShot(list(entries)).collate_tags())
    if got_c != ("ok", exp_c) or (got_c[0] == "ok" and list(got_c[1]) != list(exp_c)):
        fails.append(("collate_tags", f"shot {entries!r}: collate_tags -> {got_c}, expected {exp_c}"))
    return fails


def _chunk_shots(args):
    tier, first = args
    b = BOUNDS[tier]
    fails = []
    n = 0
    distinct = 0
    alphabet = [(t, v) for t in TAGS for v in VALUES]
    for ln in range(1, b["shot_len"] + 1):
        for rest in itertools.product(alphabet, repeat=ln - 1):
            n += 1
            entries = [first, *rest]
            regs = {(_IDX.match(t).group(1) if _IDX.match(t) else t) for t, _ in entries}
            if len(regs) < len(entries):
                distinct += 1
            for sig, msg in check_shot(entries):
                fails.append((sig, msg, [[t, v] for t, v in entries]))
    return n, distinct, fails[:50], len(fails)


# shots used to build multi-shot results (reduced set: differing register sets and lengths)
RES_SHOTS = [
    [],
    [("c", [1, 0])],
    [("c", [1])],
    [("c", 1), ("d", 0)],
    [("d", [0, 1]), ("c", [0, 0])],
    [("c[1]", 1)],
    [("c", [0, 1]), ("c", 2)],
    [("e", [1, [0, 1]]), ("e", 0)],
    [("c", [])],  # a register of length zero (first-seen length 0 is still a length)
    [("d", 1), ("c", [])],
]


def ref_bitstrings(shots, strict_names, strict_lengths):
    per = [ref_register_bits(s) for s in shots]  # may raise ValueError
    out: dict[str, list[str]] = {}
    for bits in per:
        for r, s in bits.items():
            out.setdefault(r, []).append(s)
    if strict_names and any(set(b) != set(per[0]) for b in per):
        raise ValueError("names")
    if strict_lengths and any(len({len(s) for s in v}) > 1 for v in out.values()):
        raise ValueError("lengths")
    return out


def check_result(idxs, strict_names, strict_lengths):
    from hugr.qsystem.result import QsysResult, QsysShot

    shots = [RES_SHOTS[i] for i in idxs]
    fails = []
    exp = _try(lambda: ref_bitstrings(shots, strict_names, strict_lengths))
    for ctor in ("tuples", "shots"):
        mk = (lambda: QsysResult([list(s) for s in shots])) if ctor == "tuples" else (lambda: QsysResult([QsysShot(list(s)) for s in shots]))
        got = _try(lambda: mk().register_bitstrings(strict_names=strict_names, strict_lengths=strict_lengths))
        flags = f"names={int(strict_names)},lengths={int(strict_lengths)}"
        if got != exp:
            kind = "accepts" if exp[0] != "ok" and got[0] == "ok" else ("rejects" if exp[0] == "ok" else "differs")
            fails.append((f"register_bitstrings:{flags}:{kind}", f"shots {shots!r} {flags}: -> {got}, model -> {exp}"))
        gotc = _try(lambda: mk().register_counts(strict_names=strict_names, strict_lengths=strict_lengths))
        expc = ("ok", {r: Counter(v) for r, v in exp[1].items()}) if exp[0] == "ok" else exp
        if gotc != expc:
            fails.append((f"register_counts:{flags}", f"shots {shots!r} {flags}: -> {gotc}, model -> {expc}"))
    if not strict_names and not strict_lengths:
        def expcc():
            c = Counter()
            for s in shots:
                c[tuple((t, "".join(_bit(x) for x in _flat(vs))) for t, vs in ref_collate(s).items())] += 1
            return c

        e, g = _try(expcc), _try(lambda: QsysResult([list(s) for s in shots]).collated_counts())
        if e != g:
            fails.append(("collated_counts", f"shots {shots!r}: collated_counts -> {g}, model -> {e}"))
        gs = _try(lambda: QsysResult([list(s) for s in shots]).collated_shots())
        if gs != ("ok", [ref_collate(s) for s in shots]):
            fails.append(("collated_shots", f"shots {shots!r}: collated_shots -> {gs}"))
    return fails


def run(tier: str, seed: int) -> Result:
    b = BOUNDS[tier]
    col = Collector()
    alphabet = [(t, v) for t in TAGS for v in VALUES]
    results = pmap(_chunk_shots, [(tier, a) for a in alphabet])
    n_shots = sum(r[0] for r in results) + 1
    distinct = sum(r[1] for r in results)
    for sig, msg in check_shot([]):
        col.add(sig, msg, {"shot": []})
    for _, _, fails, _ in results:
        for sig, msg, entries in fails:
            col.add(sig, msg, {"shot": entries})
    n_res = 0
    for k in range(0, b["res_shots"] + 1):
        for idxs in itertools.product(range(len(RES_SHOTS)), repeat=k):
            for sn, sl in itertools.product((False, True), repeat=2):
                n_res += 1
                for sig, msg in check_result(idxs, sn, sl):
                    col.add(sig, msg, {"result": list(idxs), "strict_names": sn, "strict_lengths": sl})
    col.sample({"shot": [["c", [1, 0]], ["c[1]", 1], ["c", [0]]]})
    col.sample({"result_shots": [RES_SHOTS[1], RES_SHOTS[3]], "strict_names": True})
    total = n_shots + n_res
    cov = {
        "states": n_shots,
        "transitions": total,
        "traces_validated_against_impl": total,
        "evaluations": total,
        "distinct_nontrivial": distinct,
        "rule": f"every shot of 0..{b['shot_len']} entries over {len(TAGS)} tags x {len(VALUES)} values (non-trivial = two "
        f"entries touch the same register); every result of 0..{b['res_shots']} shots over {len(RES_SHOTS)} reference shots x "
        "4 strictness settings; oracle = write-replay model R7",
        "samples": col.samples,
        "exhaustive": True,
        "shots": n_shots,
        "results": n_res,
    }
    return Result(cov, col.violations, ["R7 model in this file", "'not a bit' = anything but int/bool 0/1"])


def replay(case) -> list[Violation]:
    if "shot" in case:
        out = check_shot([(t, v) for t, v in case["shot"]])
    else:
        out = check_result(case["result"], case["strict_names"], case["strict_lengths"])
    return [Violation(s, m, case) for s, m in out]
