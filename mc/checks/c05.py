"""C05 - types, values and operations survive encoding and decoding unchanged; foreign
documents survive load + save.

E3 over the bounded term grammars (types, params, args, values, all op kinds) with
 (1) enc(dec(enc(x))) == enc(x) exactly, (2) enc(x) == the published wire format (reference
 encoder, no hugr import), (3) equal derived facts before/after (bound, type, R3 facts),
 (4) attribute-wise equality, (5) sugar == general forms;
and foreign documents built by the reference encoder (null-offset order edges, all optional
fields, metadata everywhere, non hugr-py encoder) pushed through load_json + to_json."""

from __future__ import annotations

import json

from mc.checks import c06
from mc.drivers import opterms as O
from mc.drivers import terms as T
from mc.engine.core import Collector, Result, Violation, jstrict, pmap

norm = T.norm_type_json


def _try(f):
    try:
        return ("ok", f())
    except Exception as e:  # noqa: BLE001
        return ("exc", f"{type(e).__name__}: {e}"[:200])


# ------------------------------------------------------------------ codecs of the code under test
def enc_type(t):
    if type(t).__name__ == "PolyFuncType":
        return json.loads(t._to_serial().model_dump_json())
    return json.loads(t._to_serial_root().model_dump_json())


def dec_type(doc, poly=False):
    import hugr._serialization.tys as stys

    if poly:
        return stys.PolyFuncType.model_validate(doc).deserialize()
    return stys.Type.model_validate(doc).deserialize()


def enc_param(p):
    return json.loads(p._to_serial_root().model_dump_json())


def dec_param(doc):
    import hugr._serialization.tys as stys

    return stys.TypeParam.model_validate(doc).deserialize()


def enc_arg(a):
    return json.loads(a._to_serial_root().model_dump_json())


def dec_arg(doc):
    import hugr._serialization.tys as stys

    return stys.TypeArg.model_validate(doc).deserialize()


def enc_value(v):
    return json.loads(v._to_serial_root().model_dump_json())


def dec_value(doc):
    import hugr._serialization.ops as sops

    return sops.Value.model_validate(doc).deserialize()


def enc_op(op):
    import hugr._serialization.ops as sops
    from hugr.hugr.node_port import Node

    return json.loads(sops.OpType(root=op._to_serial(Node(0))).model_dump_json())


def dec_op(doc):
    import hugr._serialization.ops as sops

    return sops.OpType.model_validate(doc).root.deserialize()


# ------------------------------------------------------------------ types / params / args
def opaque_form(t):
    """Spec with std extension types replaced by their opaque spelling."""
    if not isinstance(t, list):
        return t
    k = t[0] if t else None
    if isinstance(k, str) and k in T.STD_TYPES:
        j = T.ref_type_json(t)
        return ["Opaque", j["extension"], j["id"], j["bound"], [_arg_spec_from_json_like(a, t) for a in _std_args(t)]]
    return [opaque_form(x) for x in t]


def _std_args(t):
    k = t[0]
    if k == "int":
        return [["NA", t[1]]]
    if k in ("float", "string"):
        return []
    if k == "array":
        return [["NA", t[1]], ["TA", t[2]]]
    return [["TA", t[1]]]


def _arg_spec_from_json_like(a, _t):
    return opaque_form(a)


def has_std(t):
    if not isinstance(t, list):
        return False
    if t and isinstance(t[0], str) and t[0] in T.STD_TYPES:
        return True
    return any(has_std(x) for x in t)


def check_type(spec):
    k = spec[0]
    fails = []

    def bad(what, msg):
        fails.append((f"type:{k}:{what}", f"{spec}: {msg}"))

    poly = k == "Poly"
    try:
        x = T.build_type(spec)
        doc = enc_type(x)
    except Exception as e:  # noqa: BLE001
        return [(f"type:{k}:encode-raised", f"{spec}: {type(e).__name__}: {e}")]
    if norm(doc) != norm(T.ref_type_json(spec)):
        bad("wire-format", f"encoded as {doc}, wire format says {T.ref_type_json(spec)}")
    r = _try(lambda: dec_type(doc, poly))
    if r[0] != "ok":
        bad("decode-raised", f"decoding {doc} raised {r[1]}")
        return fails
    y = r[1]
    doc2 = _try(lambda: enc_type(y))
    if jstrict(doc2) != jstrict(("ok", doc)):
        bad("re-encode", f"enc(dec(enc(x))) = {doc2[1]} != enc(x) = {doc}")
    if not poly:
        b1, b2 = _try(lambda: x.type_bound().value), _try(lambda: y.type_bound().value)
        if b1 != b2:
            bad("bound-changed", f"type_bound {b1} before, {b2} after decoding")
        if b2 != ("ok", T.ref_bound(spec)):
            bad("decoded-bound", f"decoded type reports {b2}, specification {T.ref_bound(spec)}")
    # attribute-wise equality against the same term built in opaque form
    z = T.build_type(opaque_form(spec))
    if not (y == z):
        bad("not-equal", f"decoded {y!r} != original (opaque form) {z!r}")
    if not has_std(spec) and not (x == y and y == x):
        bad("not-equal-orig", f"decoded {y!r} != original {x!r}")
    return fails


def check_sugar_type(spec):
    """Tuple / Option / Either / UnitSum == general Sum, same bound, same (normalised) encoding."""
    from hugr import tys

    k = spec[0]
    fails = []
    rows = T.ref_rows(spec)
    s = T.build_type(spec)
    g = tys.Sum([[T.build_type(t) for t in r] for r in rows])
    if not (s == g) or not (g == s):
        fails.append((f"sugar-type:{k}:eq", f"{spec}: sugar {s!r} == general {g!r} is {s == g}/{g == s}"))
    if s.type_bound() != g.type_bound():
        fails.append((f"sugar-type:{k}:bound", f"{spec}: bounds {s.type_bound()} vs {g.type_bound()}"))
    if norm(enc_type(s)) != norm(enc_type(g)):
        fails.append((f"sugar-type:{k}:encoding", f"{spec}: encodings differ beyond spelling"))
    if [list(r) for r in s.variant_rows] != [list(r) for r in g.variant_rows]:
        fails.append((f"sugar-type:{k}:rows", f"{spec}: variant rows differ"))
    if k == "Either":
        s2 = tys.Either(iter([T.build_type(t) for t in spec[1]]), iter([T.build_type(t) for t in spec[2]]))
        if not (s2 == s):
            fails.append(("sugar-type:Either:one-shot-iterables", f"{spec}: Either built from iterators differs: {s2!r}"))
    return fails


def check_param(spec):
    fails = []
    p = T.build_param(spec)
    doc = enc_param(p)
    if doc != T.ref_param_json(spec):
        fails.append((f"param:{spec[0]}:wire-format", f"{spec}: encoded {doc}, wire format {T.ref_param_json(spec)}"))
    r = _try(lambda: dec_param(doc))
    if r[0] != "ok":
        return fails + [(f"param:{spec[0]}:decode-raised", f"{spec}: {r[1]}")]
    if jstrict(enc_param(r[1])) != jstrict(doc):
        fails.append((f"param:{spec[0]}:re-encode", f"{spec}: {enc_param(r[1])} != {doc}"))
    if r[1] != p:
        fails.append((f"param:{spec[0]}:not-equal", f"{spec}: decoded {r[1]!r} != {p!r}"))
    return fails


def check_arg(spec):
    fails = []
    a = T.build_arg(spec)
    doc = enc_arg(a)
    if norm(doc) != norm(T.ref_arg_json(spec)):
        fails.append((f"arg:{spec[0]}:wire-format", f"{spec}: encoded {doc}, wire format {T.ref_arg_json(spec)}"))
    r = _try(lambda: dec_arg(doc))
    if r[0] != "ok":
        return fails + [(f"arg:{spec[0]}:decode-raised", f"{spec}: {r[1]}")]
    if jstrict(enc_arg(r[1])) != jstrict(doc):
        fails.append((f"arg:{spec[0]}:re-encode", f"{spec}: {enc_arg(r[1])} != {doc}"))
    if r[1] != a:
        fails.append((f"arg:{spec[0]}:not-equal", f"{spec}: decoded {r[1]!r} != {a!r}"))
    return fails


# ------------------------------------------------------------------ values
def check_value(spec):
    from hugr import tys, val

    k = spec[0]
    fails = []

    def bad(what, msg):
        fails.append((f"value:{k}:{what}", f"{spec}: {msg}"))

    try:
        v = O.build_value(spec)
        doc = enc_value(v)
    except Exception as e:  # noqa: BLE001
        return [(f"value:{k}:encode-raised", f"{spec}: {type(e).__name__}: {e}")]
    try:
        v1 = O.build_value(spec, one_shot=True)
        if jstrict(enc_value(v1)) != jstrict(doc):
            bad("one-shot-iterables", "the same value built from one-shot iterators encodes differently")
    except Exception as e:  # noqa: BLE001
        bad("one-shot-iterables:raised", f"{type(e).__name__}: {e}")
    r = _try(lambda: dec_value(doc))
    if r[0] != "ok":
        return [(f"value:{k}:decode-raised", f"{spec}: decoding raised {r[1]}")]
    w = r[1]
    d2 = _try(lambda: enc_value(w))
    if jstrict(d2) != jstrict(("ok", doc)):
        bad("re-encode", f"enc(dec(enc(v))) differs: {str(d2[1])[:300]} vs {str(doc)[:300]}")
    t1, t2 = _try(lambda: norm(enc_type(v.type_()))), _try(lambda: norm(enc_type(w.type_())))
    if t1 != t2:
        bad("type-changed", f"type_() {t1} before, {t2} after decoding")
    if O.is_sum_value(spec):
        # sugar == general form, and the decoded value equals both
        g = val.Sum(O.ref_value_tag(spec), tys.Sum([[T.build_type(t) for t in r] for r in T.ref_rows(O.ref_value_type(spec))]),
                    [O.build_value(x) for x in O.ref_value_fields(spec)])
        no_ext = "V'" not in repr(spec) and all(s not in repr(spec) for s in ("IntV", "FloatV", "StringV", "ArrayV", "ListV", "SArrayV", "FuncV", "ExtV"))
        if no_ext:
            if not (v == g) or not (g == v):
                bad("sugar-eq", f"sugar value {v!r} == general {g!r} is {v == g}/{g == v}")
            if not (w == v) or not (w == g):
                bad("not-equal", f"decoded {w!r} != original {v!r}")
        if norm(enc_type(v.type_())) != norm(enc_type(g.type_())):
            bad("sugar-type", "sugar value and general value report different types")
        if getattr(w, "tag", None) != O.ref_value_tag(spec):
            bad("tag-changed", f"decoded tag {getattr(w, 'tag', None)}, expected {O.ref_value_tag(spec)}")
    return fails


# ------------------------------------------------------------------ ops
EXT_KINDS = ("MakeTuple", "UnpackTuple", "Noop", "Not", "DivMod", "Custom")
SUGAR_TAGS = ("Some", "Left", "Right", "Continue", "Break")


def general_op(spec):
    k = spec[0]
    if k in SUGAR_TAGS:
        tag, rows = O.tag_of(spec)
        return ["Tag", tag, rows]
    return spec


def _op_attrs(op):
    """Attribute dictionary of a core op object, types rendered by normalised encoding."""
    import dataclasses

    out = {"__class__": type(op).__name__}
    # the fields that make up the object's identity (dataclass equality): scratch state a class keeps beside them
    # (memo tables declared compare=False) is nobody's business
    fields = [f.name for f in dataclasses.fields(op) if f.compare] if dataclasses.is_dataclass(op) else []
    for name in fields:
        val_ = getattr(op, name)
        out[name] = _render(val_)
    return out


def _render(x):
    if isinstance(x, (str, int, float, bool)) or x is None:
        return x
    if isinstance(x, (list, tuple)):
        return [_render(y) for y in x]
    if hasattr(x, "_to_serial_root") or hasattr(x, "_to_serial"):
        try:
            if hasattr(x, "type_bound") or type(x).__name__ == "PolyFuncType":
                return norm(enc_type(x))
            return norm(json.loads(x._to_serial_root().model_dump_json()))
        except Exception:  # noqa: BLE001
            return repr(x)
    if hasattr(x, "value"):
        return x.value
    return repr(x)


def check_op(spec):
    k = spec[0]
    fails = []

    def bad(what, msg):
        fails.append((f"op:{k}:{what}", f"{spec}: {msg}"))

    try:
        op = O.build_op(spec)
        doc = enc_op(op)
    except Exception as e:  # noqa: BLE001
        return [(f"op:{k}:encode-raised", f"{spec}: {type(e).__name__}: {e}")]
    ref = O.ref_op_json(spec)
    a, b = norm(doc), norm(ref)
    if k == "Const":
        from mc.checks.c14 import _strip_fn

        a, b = _strip_fn(a), _strip_fn(b)
    if k in EXT_KINDS and k != "Custom":
        # the description of a definition-backed op is free text chosen by the library (its definition's)
        a, b = {**a, "description": ""}, {**b, "description": ""}
    if a != b:
        diff = [key for key in set(a) | set(b) if a.get(key) != b.get(key)]
        bad(f"wire-format:{'+'.join(sorted(diff))}", f"encoded as {doc}, wire format says {ref}")
    r = _try(lambda: dec_op(doc))
    if r[0] != "ok":
        bad("decode-raised", f"decoding raised {r[1]}")
        return fails
    op2 = r[1]
    d2 = _try(lambda: enc_op(op2))
    if jstrict(d2) != jstrict(("ok", doc)):
        changed = sorted(key for key in set(doc) | set(d2[1] if d2[0] == "ok" else {}) if d2[0] != "ok" or doc.get(key) != d2[1].get(key))
        bad(f"re-encode:{'+'.join(changed)}", f"enc(dec(enc(op))) = {d2[1]} != enc(op) = {doc}")
    # derived facts of the decoded op against R3
    for sig, msg in c06.check_op_object(op2, spec):
        fails.append((f"op:decoded:{sig}", msg))
    if k in EXT_KINDS:
        from hugr import ops

        if not isinstance(op2, ops.Custom):
            bad("ext-not-custom", f"extension op decoded to {type(op2).__name__}")
        else:
            got = {"extension": op2.extension, "name": op2.op_name, "signature": norm(enc_type(op2.signature)),
                   "args": [norm(enc_arg(x)) for x in op2.args], "description": op2.description}
            exp = {kk: norm(ref[kk]) if kk in ("signature", "args") else (doc[kk] if kk == "description" else ref[kk]) for kk in got}
            for kk in got:
                if got[kk] != exp[kk]:
                    bad(f"custom-attr:{kk}", f"decoded Custom.{kk} = {got[kk]!r}, expected {exp[kk]!r}")
    else:
        # attribute by attribute against the general form built directly
        g = O.build_op(general_op(spec))
        ga, oa = _op_attrs(g), _op_attrs(op2)
        if k == "Const":
            ga.pop("val", None), oa.pop("val", None)
        if ga != oa:
            diff = sorted(key for key in set(ga) | set(oa) if ga.get(key) != oa.get(key))
            bad(f"attr:{'+'.join(diff)}", f"decoded op attributes {oa} differ from the original's {ga}")
    if k in SUGAR_TAGS:
        g = O.build_op(general_op(spec))
        if norm(enc_op(g)) != norm(doc):
            bad("sugar-encoding", f"sugar tag op encodes as {doc}, general Tag as {enc_op(g)}")
        s1, s2 = op.outer_signature(), g.outer_signature()
        if [c06.tok(t) for t in s1.input] != [c06.tok(t) for t in s2.input] or [c06.tok(t) for t in s1.output] != [c06.tok(t) for t in s2.output]:
            bad("sugar-signature", f"sugar tag op signature {s1} differs from Tag's {s2}")
    return fails


# ------------------------------------------------------------------ foreign documents
def foreign_doc_for_op(spec, meta):
    """Module root + the op as its child, written by a 'foreign' encoder with all optional fields."""
    return {
        "version": "live",
        "nodes": [O.ref_op_json(["Module"], 0), O.ref_op_json(spec, 0)],
        "edges": [],
        "metadata": [{"name": "root-meta"}, meta],
        "encoder": "foreign-writer v9",
    }


ORDER_DOCS = []


def _order_docs():
    """DFG documents whose state-order edges are written without port offsets, plus value edges
    and metadata on every node."""
    B, Q = T.BOOL, T.QB
    docs = []
    for n_mid, ops_ in ((2, [["Noop", B], ["Noop", B]]), (2, [["Not"], ["DivMod", 3]]), (3, [["Noop", Q], ["MakeTuple", [B]], ["Tag", 0, [[B], []]]])):
        nodes = [["DFG", [B], [B], []], ["Input", [B]], ["Output", [B]], *ops_]
        jn = [O.ref_op_json(s, 0) for s in nodes]
        k = len(nodes)
        edges = [[[1, 0], [2, 0]]]
        order = []
        mids = list(range(3, k))
        for a, b in zip(mids, mids[1:]):
            order.append((a, b))
        order.append((1, mids[0]))
        order.append((mids[-1], 2))
        for a, b in order:
            edges.append([[a, None], [b, None]])
        docs.append(({"version": "live", "nodes": jn, "edges": edges, "metadata": [{"i": i, "s": "é✓"} for i in range(k)], "encoder": None}, nodes, order))
    return docs


def _layout(spec):
    s = O.ref_sig(spec)
    n_in = len(s["vin"]) + (1 if s["static_in"] else 0)
    n_out = len(s["vout"])
    return n_in, n_out


def check_foreign_op(spec, meta):
    from hugr.hugr import Hugr

    k = spec[0]
    doc = foreign_doc_for_op(spec, meta)
    fails = []
    r = _try(lambda: json.loads(Hugr.load_json(json.dumps(doc)).to_json()))
    if r[0] != "ok":
        return [(f"foreign:{k}:load-save-raised", f"{spec}: {r[1]}")]
    out = r[1]
    if len(out["nodes"]) != 2:
        return [(f"foreign:{k}:node-count", f"{spec}: {len(out['nodes'])} nodes after load+save")]
    a, b = norm(out["nodes"][1]), norm(doc["nodes"][1])
    if k == "Const":
        from mc.checks.c14 import _strip_fn

        a, b = _strip_fn(a), _strip_fn(b)
    if jstrict(a) != jstrict(b):
        diff = sorted(key for key in set(a) | set(b) if jstrict(a.get(key)) != jstrict(b.get(key)))
        fails.append((f"foreign:{k}:field:{'+'.join(diff)}", f"{spec}: node re-saved as {out['nodes'][1]}, document had {doc['nodes'][1]}"))
    md = out.get("metadata") or []
    got_meta = [(m or None) for m in md] + [None] * (2 - len(md))
    if jstrict(got_meta[:2]) != jstrict([{"name": "root-meta"}, meta or None]):
        fails.append(("foreign:metadata", f"{spec}: metadata {doc['metadata']} re-saved as {out.get('metadata')}"))
    return fails


def check_foreign_order(i):
    from hugr.hugr import Hugr

    doc, nodes, order = _order_docs()[i]
    fails = []
    r = _try(lambda: json.loads(Hugr.load_json(json.dumps(doc)).to_json()))
    if r[0] != "ok":
        return [("foreign:order-doc:load-save-raised", f"doc {i}: {r[1]}")]
    out = r[1]
    if [norm(n) for n in out["nodes"]] != [norm(n) for n in doc["nodes"]]:
        fails.append(("foreign:order-doc:nodes", f"doc {i}: nodes changed"))
    # classify saved edges by the reference port layout
    got_order, got_value = [], []
    for (a, ao), (b, bo) in out["edges"]:
        _, n_out = _layout(nodes[a])
        n_in, _ = _layout(nodes[b])
        a_is_order = ao is None or ao >= n_out
        b_is_order = bo is None or bo >= n_in
        if a_is_order and b_is_order:
            if (ao is not None and ao != n_out) or (bo is not None and bo != n_in):
                fails.append(("foreign:order-doc:order-offset", f"doc {i}: order edge re-saved at offsets {ao}->{bo}, order ports are {n_out}->{n_in}"))
            got_order.append((a, b))
        elif a_is_order != b_is_order:
            fails.append(("foreign:order-doc:mixed-edge", f"doc {i}: edge {(a, ao)}->{(b, bo)} joins an order port and a value port"))
        else:
            got_value.append((a, ao, b, bo))
    if sorted(got_order) != sorted(order):
        fails.append(("foreign:order-doc:order-edges-lost", f"doc {i}: order edges {sorted(order)} written without offsets re-saved as {sorted(got_order)}"))
    if got_value != [(1, 0, 2, 0)]:
        fails.append(("foreign:order-doc:value-edges", f"doc {i}: value edges {got_value}"))
    md = out.get("metadata") or []
    if jstrict([m or None for m in md]) != jstrict(doc["metadata"]):
        fails.append(("foreign:metadata", f"doc {i}: metadata re-saved as {md}"))
    # the loaded Hugr reports those edges as order links
    h = Hugr.load_json(json.dumps(doc))
    from hugr.hugr.node_port import Node

    rep = sorted((a, m.idx) for a in range(len(nodes)) for m in h.outgoing_order_links(Node(a)))
    if rep != sorted(order):
        fails.append(("foreign:order-doc:outgoing_order_links", f"doc {i}: loaded Hugr reports order links {rep}, document has {sorted(order)}"))
    return fails


def check_repo_doc(path):
    from hugr.hugr import Hugr

    doc = json.loads(open(path).read())
    r = _try(lambda: json.loads(Hugr.load_json(json.dumps(doc)).to_json()))
    if r[0] != "ok":
        return [("foreign:repo-doc:load-save-raised", f"{path}: {r[1]}")]
    out = r[1]
    fails = []
    if [norm(n) for n in out["nodes"]] != [norm(n) for n in doc["nodes"]]:
        bad = [i for i, (x, y) in enumerate(zip(out["nodes"], doc["nodes"])) if norm(x) != norm(y)]
        fails.append(("foreign:repo-doc:nodes", f"{path}: nodes {bad[:5]} changed by load+save"))
    if sorted(map(json.dumps, out["edges"])) != sorted(map(json.dumps, doc["edges"])):
        fails.append(("foreign:repo-doc:edges", f"{path}: edge multiset changed by load+save"))
    return fails


def check_ladder_doc(case):
    """A ladder HUGR's document, re-spelled the way a foreign writer may (order edges without offsets,
    another encoder string), is loaded: the loaded links must be the image of the document's edges under
    the reference port layout (R2), and saving again must give back nodes, metadata and the edge multiset."""
    from collections import Counter

    from hugr.hugr import Hugr
    from mc.drivers import ladder
    from mc.ref import hugrjson as H

    fails = []
    fam = case[0]
    doc = json.loads(ladder.build(case).to_json())
    lay = [H.layout(n) for n in doc["nodes"]]
    expected = Counter()
    foreign_edges = []
    for (a, ao), (b, bo) in doc["edges"]:
        is_order = ao is not None and ao == lay[a].order_off("out") and bo == lay[b].order_off("in")
        if is_order:
            expected[(a, -1, b, -1)] += 1
            foreign_edges.append([[a, None], [b, None]])
        else:
            expected[(a, ao, b, bo)] += 1
            foreign_edges.append([[a, ao], [b, bo]])
    fdoc = {**doc, "edges": foreign_edges, "encoder": "foreign-writer v9"}
    try:
        h2 = Hugr.load_json(json.dumps(fdoc))
    except Exception as e:  # noqa: BLE001
        return [(f"ladder-doc:{fam}:load-raised", f"{case}: {type(e).__name__}: {str(e)[:200]}")]
    got = Counter((s_.node.idx, s_.offset, t_.node.idx, t_.offset) for s_, t_ in h2.links())
    if got != expected:
        extra, missing = got - expected, expected - got
        kind = "order" if any(k[1] == -1 for k in list(extra) + list(missing)) else "value"
        fails.append((f"ladder-doc:{fam}:loaded-links:{kind}", f"{case}: loaded links differ from the document's edges under the reference port layout: extra={dict(extra)} missing={dict(missing)}"))
    r = _try(lambda: json.loads(h2.to_json()))
    if r[0] != "ok":
        return fails + [(f"ladder-doc:{fam}:save-raised", f"{case}: {r[1]}")]
    out = r[1]
    if jstrict([norm(n) for n in out["nodes"]]) != jstrict([norm(n) for n in doc["nodes"]]):
        bad = [i for i, (x, y) in enumerate(zip(out["nodes"], doc["nodes"])) if jstrict(norm(x)) != jstrict(norm(y))]
        fails.append((f"ladder-doc:{fam}:nodes", f"{case}: nodes {bad[:5]} changed by load+save"))
    if sorted(map(json.dumps, out["edges"])) != sorted(map(json.dumps, doc["edges"])):
        fails.append((f"ladder-doc:{fam}:edges", f"{case}: edge multiset changed by load+save (order edges were written without offsets)"))
    if jstrict([m or None for m in (out.get("metadata") or [])]) != jstrict([m or None for m in (doc.get("metadata") or [])]):
        fails.append((f"ladder-doc:{fam}:metadata", f"{case}: metadata changed by load+save"))
    return fails


# ------------------------------------------------------------------ driver
def _work(item):
    kind, spec = item
    try:
        if kind == "type":
            fs = check_type(spec) + (check_sugar_type(spec) if T.is_sum(spec) else [])
        elif kind == "param":
            fs = check_param(spec)
        elif kind == "arg":
            fs = check_arg(spec)
        elif kind == "value":
            fs = check_value(spec)
        elif kind == "op":
            fs = check_op(spec)
        elif kind == "ladder-doc":
            fs = check_ladder_doc(spec)
        elif kind == "foreign-op":
            fs = check_foreign_op(*spec)
        elif kind == "foreign-order":
            fs = check_foreign_order(spec)
        else:
            fs = check_repo_doc(spec)
    except Exception as e:  # noqa: BLE001
        import traceback

        fs = [(f"{kind}:harness-exception", f"{spec}: {type(e).__name__}: {e} {traceback.format_exc(limit=2)}")]
    return [(s, m, [kind, spec]) for s, m in fs]


def _chunk(items):
    out = []
    for it in items:
        out += _work(it)
    return out


def items_for(tier):
    import glob
    import os

    items = [("type", s) for s in T.type_specs(tier)]
    items += [("type", ["Poly", ps, g]) for ps in ([], [["TP", T.C]], [["TP", T.A], ["NP", 7]], [["LP", ["TP", T.A]], ["SP"], ["EP"]])
              for g in (O.G([], []), O.G([["V", 0, T.A]], [["V", 0, T.A], T.BOOL]), O.G([["R", 0, T.A]], [T.QB], ["x"]))]
    items += [("param", p) for p in T.PARAMS]
    items += [("arg", a) for a in T.arg_specs()]
    items += [("value", v) for v in O.value_specs(tier)]
    ops_ = O.op_specs(tier)
    items += [("op", o) for o in ops_]
    metas = [None, {"k": [1, "a", None], "é": {"n": 1.5}}, {"t": True, "one": 1, "f1": 1.0, "z": 0, "ff": False, "f0": 0.0, "neg": -0.0, "": "", "big": 2**63}]
    # one foreign document per op (reduced: every op kind x up to 40 variants, all with metadata)
    per_kind = {}
    for o in ops_:
        per_kind.setdefault(o[0], []).append(o)
    for k, lst in per_kind.items():
        step = max(1, len(lst) // (40 if tier == "quick" else 200))  # foreign documents: a spread over every op kind
        for i, o in enumerate(lst[::step]):
            if "FuncV" in repr(o):
                continue  # the reference encoder has no document for embedded function bodies
            items.append(("foreign-op", [o, metas[i % 3]]))
    items += [("foreign-order", i) for i in range(len(_order_docs()))]
    from mc.drivers import ladder

    items += [("ladder-doc", c) for c in ladder.cases_for("thorough" if tier == "xdeep" else "quick")]
    repo = os.environ.get("HUGR_REPO", "/repo")
    for p in sorted(glob.glob(f"{repo}/resources/test/*.json")):
        try:
            d = json.load(open(p))
        except Exception:  # noqa: BLE001
            continue
        if d.get("version") == "live" and not any("input_extensions" in n for n in d.get("nodes", [])):
            items.append(("repo-doc", p))
    return items


GRAMMAR = {"quick": "thorough", "thorough": "xdeep"}  # the term grammars are cheap: quick already uses the larger one


def run(tier: str, seed: int) -> Result:
    col = Collector()
    items = items_for(GRAMMAR[tier])
    nchunks = 64
    for res in pmap(_chunk, [items[i::nchunks] for i in range(nchunks)]):
        for sig, msg, it in res:
            col.add(sig, msg, {"item": it})
    counts = {}
    for k, _ in items:
        counts[k] = counts.get(k, 0) + 1
    col.sample({"item": items[counts["type"] // 2]})
    col.sample({"item": [items[-5][0], items[-5][1]]})
    n = len(items)
    cov = {
        "states": n,
        "transitions": n,
        "traces_validated_against_impl": n,
        "evaluations": n,
        "distinct_nontrivial": n - sum(1 for k, s in items if k == "type" and s[0] in ("Q", "I")),
        "rule": "distinct terms of the bounded grammars (types incl. polymorphic schemes, 10 params, all 6 arg kinds nested "
        "once, values to depth 2/3, every op kind over the row alphabet with optional attributes set) + one foreign "
        "document per sampled op (every op kind, with metadata) + documents with null-offset order edges + repository test "
        "documents; each is encoded, decoded, re-encoded and compared with the reference wire encoding and R3/R5 facts",
        "samples": col.samples,
        "exhaustive": True,
        "items_per_kind": counts,
    }
    return Result(cov, col.violations, ["reference encoders in mc/drivers/terms.py, opterms.py (from specification/schema)", "R3 facts via c06"])


def replay(case) -> list[Violation]:
    kind, spec = case["item"]
    return [Violation(s, m, case) for s, m, _ in _work((kind, spec))]
