"""C01 - builder-constructed HUGRs satisfy the specification's validity rules.

E2: every complete builder program of the scenario families within the call bound; oracle =
R2 reference validator (mc/ref/validate.py) applied to Hugr.to_json()."""

from __future__ import annotations

import json

from mc.drivers import bpm, ladder
from mc.drivers.scenarios import SCENARIOS
from mc.engine import e2
from mc.engine.core import Collector, Result, Violation
from mc.ref.validate import validate

PLAN = {
    # (scenario, bound on *free* calls; steps with a single enabled call do not count)
    "quick": [("D1", 3), ("D2", 2), ("D0", 3), ("D3", 2), ("C1", 3), ("C2", 3), ("L1", 3), ("L2", 2), ("G1", 3), ("G2", 2), ("K1", 2), ("M1", 3), ("M2", 3), ("M5", 3), ("RG", 3), ("RC", 3), ("RL", 3), ("RF", 3), ("M6", 3), ("K2", 3), ("Q1", 3), ("M7", 3)],
    # thorough: one more free call where the state count allows (D2 at 4 is 12.8M states, G1 at 4 7.7M, D0 at 5 2.3M)
    "thorough": [("D1", 4), ("D2", 3), ("D0", 4), ("D3", 3), ("C1", 4), ("C2", 5), ("L1", 4), ("L2", 3), ("G1", 3), ("G2", 3), ("K1", 3), ("M1", 4), ("M2", 4), ("M5", 4), ("RG", 4), ("RC", 5), ("RL", 5), ("RF", 4), ("M6", 4), ("K2", 4), ("Q1", 4), ("M7", 4)],
}


def oracle(sc, ctx, program):
    doc = json.loads(ctx.hugr.to_json())
    out = []
    seen = set()
    for rule, msg in validate(doc):
        if rule in seen:
            continue
        seen.add(rule)
        out.append((f"{rule}:{sc.name}", f"{msg} | program={program}"))
    return out


def judge(h):
    out, seen = [], set()
    for rule, msg in validate(json.loads(h.to_json())):
        if rule not in seen:
            seen.add(rule)
            out.append((rule, msg))
    return out


def const_cases(tier):
    """Every copyable value of the bounded value grammar, built from lists and from one-shot iterators."""
    from mc.drivers import opterms as O
    from mc.drivers import terms as T

    for spec in O.value_specs("thorough" if tier == "quick" else "deep"):
        try:
            if T.ref_bound(O.ref_value_type(spec)) != T.C:
                continue
        except Exception:  # noqa: BLE001
            continue
        for one_shot in (False, True):
            yield [spec, one_shot]


def const_judge(case):
    """`load(value)` in an otherwise empty Dfg, value passed to the output: the document must be valid
    (R2 types the Const through R4, the LoadConstant through R3)."""
    from hugr.build.dfg import Dfg
    from mc.drivers import opterms as O

    spec, one_shot = case
    d = Dfg()
    try:
        n = d.load(O.build_value(spec, one_shot))
        d.set_outputs(n)
    except Exception:  # noqa: BLE001
        return []  # a refused value is not an invalid HUGR (C14 / C13 judge refusals)
    return [(f"{rule}:const-{spec[0]}{':one-shot' if one_shot else ''}", f"{msg} | value={spec} one_shot={one_shot}") for rule, msg in judge(d.hugr)]


def _const_chunk(cases):
    return [(c, const_judge(c)) for c in cases]


def run_consts(tier, col):
    from mc.engine.core import pmap

    cases = list(const_cases(tier))
    for res in pmap(_const_chunk, [cases[i::64] for i in range(64)]):
        for case, fails in res:
            for sig, msg in fails:
                col.add(sig, msg, {"const": case})
    return len(cases)


def run(tier: str, seed: int) -> Result:
    col = Collector()
    r = e2.explore(SCENARIOS, oracle, PLAN[tier])
    for sig, msg, case in r.fails:
        col.add(sig, msg, case)
    n_ladder = ladder.run_ladder(tier, judge, col)
    n_const = run_consts(tier, col)
    cov = {
        "states": r.states,
        "transitions": r.transitions,
        "traces_validated_against_impl": r.transitions,
        "evaluations": r.complete_programs + n_ladder + n_const,
        "distinct_nontrivial": r.nontrivial,
        "rule": "state = builder-call prefix (replayed on fresh builders); every prefix of every scenario up to the free-call bound "
        "is extended by the default completion to a complete well-formed program and validated by R2; non-trivial = program "
        "uses a non-local wire, an order edge, a multi-output op, a constant, a nested container, control flow or a call; plus the size "
        "ladders of mc/drivers/ladder.py (every family x every size x host) and `load(v)` for every copyable value v of the bounded value "
        "grammar, built from lists and from one-shot iterators",
        "samples": r.samples or [{"scenario": "D1", "program": []}],
        "exhaustive": True,
        "plan": PLAN[tier],
        "complete_programs_judged": r.complete_programs,
        "distinct_complete_programs": r.distinct_documents,
        "dropped_uncompletable_prefixes": r.dropped_uncompletable,
        "programs_where_a_builder_call_raised": r.builder_raised,
        "builder_raised_samples": r.raised_samples,
        "feature_counts": r.features,
        "ladder_cases": n_ladder,
        "constant_cases": n_const,
        "ladder": {"families": sorted(ladder.FAMILIES), "sizes": ladder.SIZES[tier], "caps": ladder.CAPS},
    }
    return Result(cov, col.violations, ["R2 validator: mc/ref/validate.py (transcription of hugr-core validate.rs / ops/validate.rs)"])


def replay(case) -> list[Violation]:
    if "ladder" in case:
        return [Violation(s, m, case) for s, m in ladder.replay_ladder(case, judge)]
    if "const" in case:
        return [Violation(s, m, case) for s, m in const_judge(case["const"])]
    sc = SCENARIOS[case["scenario"]]
    ctx = bpm.run(sc, case["program"])
    return [Violation(s, m, case) for s, m in oracle(sc, ctx, case["program"])]
