"""C09 - package envelopes round-trip and carry the documented header.

E4: finite products - (packages over subsets/orders of 3 modules and 3 extensions) x (formats x
compression levels) x (bytes | str), and the complete header space: all 2^16 (format, flags)
pairs, all truncations, every single-byte corruption of the magic number.  Reference R8: the
10-byte layout of hugr-core/src/envelope/header.rs."""

from __future__ import annotations

import itertools
import json

from mc.engine.core import Collector, Result, Violation, jleaf

MAGIC = b"HUGRiHJv"
FORMATS = {1: "MODULE", 2: "MODULE_WITH_EXTS", 63: "JSON"}
ZSTD_MAGIC = b"\x28\xb5\x2f\xfd"
LEVELS = {"quick": [None, 0, 1, 3, 19, 22], "thorough": [None, 0, 1, 3, 19, 22, -5, -1, 2, 10]}


def modules():
    from hugr import ops, tys, val
    from hugr.build.function import Module

    def plain():
        m = Module()
        f = m.define_main([tys.Bool])
        f.set_outputs(*f.inputs())
        return m.hugr

    def unicode():
        m = Module()
        f = m.define_function("fé✓nc", [tys.Qubit])
        c = f.load(val.Tuple(val.TRUE))
        f.hugr[c].metadata["nöte"] = {"k": ["é✓", 1.5, None]}
        f.set_outputs(*f.inputs())
        m.hugr[m.hugr.root].metadata["name"] = "mödule"
        m.declare_function("décl", tys.PolyFuncType([tys.BoundedNatParam()], tys.FunctionType([], [])))
        return m.hugr

    def empty():
        return Module().hugr

    return [("plain", plain), ("unicode", unicode), ("empty", empty)]


def extensions():
    from hugr import ext, tys, val

    def e1():
        e = ext.Extension("c09.a", ext.Version(0, 1, 0))
        e.add_op_def(ext.OpDef("H", ext.OpDefSig(tys.FunctionType.endo([tys.Qubit])), "hadamard", {"m": 1}))
        return e

    def e2():
        e = ext.Extension("c09.bé", ext.Version(1, 2, 3), {"c09.a", "prelude"})
        td = e.add_type_def(ext.TypeDef("T", "dé", [tys.TypeTypeParam(tys.TypeBound.Any)], ext.FromParamsBound([0])))
        # both a type scheme and the binary flag (like the std iwiden/inarrow ops)
        e.add_op_def(ext.OpDef("refine", ext.OpDefSig(tys.PolyFuncType([tys.TypeTypeParam(tys.TypeBound.Any)], tys.FunctionType([tys.Variable(0, tys.TypeBound.Any)], [td.instantiate([tys.Variable(0, tys.TypeBound.Any).type_arg()])])), True), "d"))
        e.add_op_def(ext.OpDef("bin", ext.OpDefSig(None, True)))
        e.add_extension_value(ext.ExtensionValue("v", val.Tuple(val.TRUE, val.FALSE)))
        return e

    def e3():
        import hugr.std.int

        return hugr.std.int.INT_OPS_EXTENSION

    return [("a", e1), ("b", e2), ("std-int", e3)]


def package_specs(tier):
    n = 2 if tier == "quick" else 3
    mods = [()] + [(i,) for i in range(3)] + [p for p in itertools.permutations(range(3), 2)]
    exts = [()] + [(i,) for i in range(3)] + [p for p in itertools.permutations(range(3), 2)]
    if n == 3:
        mods += [(0, 1, 2), (2, 2)]
        exts += [(2, 1, 0)]
    for m in mods:
        for e in exts:
            yield [list(m), list(e)]


SIZES = {"quick": [255, 256, 65535, 65536, 65537, 70000, 1 << 17], "thorough": [255, 256, 4095, 4096, 65535, 65536, 65537, 70000, 1 << 17, (1 << 20) - 1, 1 << 20, (1 << 20) + 1, (1 << 22) + 7]}  # 2^24 costs ~25 min single-threaded
COUNTS = {"quick": [9, 10, 11, 130], "thorough": [9, 10, 11, 99, 100, 101, 130, 255, 256, 257, 700]}


def _filler(n, kind):
    """n characters: 'rep' compresses ~1000x, 'mix' (hex of a hash chain) only ~2x."""
    if kind == "rep":
        return "a" * n
    import hashlib

    out, h = [], b"c09"
    while sum(map(len, out)) < n:
        h = hashlib.blake2b(h, digest_size=32).digest()
        out.append(h.hex())
    return "".join(out)[:n]


def big_module(n, kind):
    """A module whose serialized JSON is dominated by one metadata string of n characters."""
    from hugr import tys
    from hugr.build.function import Module

    m = Module()
    f = m.define_main([tys.Bool])
    f.set_outputs(*f.inputs())
    m.hugr[m.hugr.root].metadata["blob"] = _filler(n, kind)
    return m.hugr


def size_specs(tier):
    """The size ladder: payloads straddling 2^8 .. 2^22 bytes, and packages of many small modules."""
    for n in SIZES[tier]:
        for kind in ("rep", "mix"):
            yield [[["big", n, kind]], []]
    for k in COUNTS[tier]:
        yield [[["many", k]], []]


def build_package(spec):
    from hugr.package import Package

    ms, es = modules(), extensions()
    mods = []
    for i in spec[0]:
        if isinstance(i, list) and i[0] == "big":
            mods.append(big_module(i[1], i[2]))
        elif isinstance(i, list) and i[0] == "many":
            mods += [ms[j % 2][1]() for j in range(i[1])]
        else:
            mods.append(ms[i][1]())
    return Package(mods, [es[i][1]() for i in spec[1]])


def docs_of(p):
    return ([json.loads(m._to_serial().model_dump_json()) for m in p.modules], [json.loads(e.to_json()) for e in p.extensions])


def _same_docs(a, b):
    def n(x):
        if isinstance(x, list):
            return [n(y) for y in x]
        if isinstance(x, dict):
            return {k: (sorted(v) if k in ("runtime_reqs", "extensions", "es", "extension_delta") and isinstance(v, list) and all(isinstance(q, str) for q in v) else n(v)) for k, v in x.items()}
        return jleaf(x)

    return n(a) == n(b)


def check_package(spec, fmt, level):
    from hugr.envelope import EnvelopeConfig, EnvelopeFormat
    from hugr.package import Package

    fails = []
    tag = f"{FORMATS[fmt]}:zstd={'none' if level is None else ('default' if level == 0 else 'level')}"

    def bad(what, msg):
        fails.append((f"{what}:{tag}", f"package modules={spec[0]} extensions={spec[1]} format={FORMATS[fmt]} zstd={level}: {msg}"))

    p = build_package(spec)
    before = docs_of(p)
    cfg = EnvelopeConfig(format=EnvelopeFormat(fmt), zstd=level)
    skipped = 0
    try:
        data = p.to_bytes(cfg)
    except AttributeError:
        return [], 1  # format needs the native module: cannot be encoded here (skipped, not passed)
    except Exception as e:  # noqa: BLE001
        return [(f"to_bytes-raised:{type(e).__name__}:{tag}", f"{spec} {FORMATS[fmt]} zstd={level}: to_bytes raised {type(e).__name__}: {e}")], 0
    # ---- header layout (R8)
    if len(data) < 10 or data[:8] != MAGIC:
        bad("header:magic", f"first bytes {data[:8]!r}")
    else:
        if data[8] != fmt:
            bad("header:format-byte", f"format byte {data[8]}, expected {fmt}")
        fl = data[9]
        if (fl >> 6) != 0b01:
            bad("header:flag-bits-7-6", f"flags {fl:#010b}: bits 7,6 are not 0,1")
        payload = data[10:]
        is_z = payload[:4] == ZSTD_MAGIC
        if bool(fl & 1) != (level is not None):
            bad("header:zstd-flag-vs-config", f"flags {fl:#010b} but compression {'requested' if level is not None else 'not requested'}")
        if bool(fl & 1) != is_z:
            bad("header:zstd-flag-vs-payload", f"flag bit 0 is {fl & 1} but the payload {'is' if is_z else 'is not'} a zstd frame")
        if not is_z:
            try:
                json.loads(payload.decode("utf-8"))
            except Exception:  # noqa: BLE001
                bad("payload:not-json", "uncompressed JSON payload does not parse")
    # ---- round trip
    try:
        q = Package.from_bytes(data)
    except Exception as e:  # noqa: BLE001
        bad(f"roundtrip:from_bytes-raised:{type(e).__name__}", f"from_bytes(to_bytes(p)) raised {type(e).__name__}: {str(e)[:200]}")
        q = None
    if q is not None:
        after = docs_of(q)
        if len(after[0]) != len(before[0]) or len(after[1]) != len(before[1]):
            bad("roundtrip:counts", f"{len(after[0])} modules / {len(after[1])} extensions after, {len(before[0])} / {len(before[1])} before")
        else:
            for i, (a, b) in enumerate(zip(before[0], after[0])):
                if not _same_docs(a, b):
                    keys = [k for k in a if not _same_docs(a[k], b.get(k))]
                    bad(f"roundtrip:module-document:{'+'.join(keys)}", f"module {i} re-serializes differently in {keys}")
            for i, (a, b) in enumerate(zip(before[1], after[1])):
                if not _same_docs(a, b):
                    where = ""
                    if a.get("operations") != b.get("operations"):
                        opn = next(k for k in a["operations"] if not _same_docs(a["operations"][k], b["operations"].get(k)))
                        fld = [f for f in a["operations"][opn] if not _same_docs(a["operations"][opn][f], b["operations"].get(opn, {}).get(f))]
                        where = f"operations.{'+'.join(fld)}"
                    else:
                        where = "+".join(k for k in a if not _same_docs(a[k], b.get(k)))
                    bad(f"roundtrip:extension-document:{where}", f"extension {i} ({a.get('name')}) re-serializes differently ({where})")
    if docs_of(p) != before:
        bad("package-modified", "encoding modified the package")
    # ---- text encoding
    try:
        s = p.to_str(cfg)
        s_ok = True
    except ValueError:
        s_ok = False
    except AttributeError:
        s_ok = None
    except Exception as e:  # noqa: BLE001
        s_ok = False
        if fmt == 63 and level is None:
            bad("to_str:raised", f"to_str raised {type(e).__name__}")
    if fmt != 63 and s_ok:
        bad("to_str:non-printable-format-offered", "to_str succeeded for a format that is not ASCII-printable")
    if fmt == 63 and level is None:
        if not s_ok:
            bad("to_str:refused", "to_str refused the JSON text configuration")
        else:
            try:
                q2 = Package.from_str(s)
                if not _same_docs(docs_of(q2), before):
                    bad("to_str:roundtrip", "from_str(to_str(p)) differs from p")
            except Exception as e:  # noqa: BLE001
                bad("to_str:from_str-raised", f"{type(e).__name__}: {str(e)[:150]}")
            if s.encode("utf-8") != data:
                bad("to_str:differs-from-bytes", "to_str is not the text of to_bytes")
    elif fmt == 63 and s_ok:
        # a compressed envelope offered as text must still decode to the same package
        try:
            q2 = Package.from_str(s)
            if not _same_docs(docs_of(q2), before):
                bad("to_str:compressed-garbage", "to_str of a compressed envelope does not round-trip")
        except Exception:  # noqa: BLE001
            bad("to_str:compressed-garbage", "to_str returned a string for a compressed envelope that from_str cannot read")
    # ---- history of the decoder / of the configuration object (JSON format)
    if fmt == 63 and q is not None:
        # (1) a truncated envelope is refused, and the complete one still decodes afterwards
        if len(data) > 24:
            for cut in (10 + (len(data) - 10) // 2, len(data) - 1):
                try:
                    Package.from_bytes(data[:cut])
                    if level is not None:
                        bad("truncated:accepted", f"from_bytes accepted the envelope cut to {cut} of {len(data)} bytes")
                except Exception:  # noqa: BLE001
                    pass
                try:
                    if not _same_docs(docs_of(Package.from_bytes(data)), before):
                        bad("after-refused-decode:differs", "the complete envelope decodes differently after a truncated one was refused")
                except Exception as e:  # noqa: BLE001
                    bad("after-refused-decode:raised", f"the complete envelope is refused after a truncated one was: {type(e).__name__}: {str(e)[:120]}")
        # (2) every decode is a fresh package: editing the first result does not show in the second
        try:
            q1 = Package.from_bytes(data)
            if q1.modules:
                m0 = q1.modules[0]
                m0[m0.root].metadata["edited-after-decode"] = True
                m0.add_node(m0[m0.root].op, m0.root)
            elif q1.extensions:
                q1.extensions[0].runtime_reqs.add("edited.after.decode")
            if not _same_docs(docs_of(Package.from_bytes(data)), before):
                bad("decode-twice:shared-result", "a second decode of the same bytes shows the edits made to the first result")
        except Exception as e:  # noqa: BLE001
            bad("decode-twice:raised", f"{type(e).__name__}: {str(e)[:120]}")
        # (3) one configuration object used, changed, used again: header and payload follow the current fields
        for other in ([0, 3] if level is None else [None]):
            try:
                cfg2 = EnvelopeConfig(format=EnvelopeFormat(fmt), zstd=level)
                p.to_bytes(cfg2)
                cfg2.zstd = other
                d2 = p.to_bytes(cfg2)
                if bool(d2[9] & 1) != (other is not None) or bool(d2[9] & 1) != (d2[10:14] == ZSTD_MAGIC):
                    bad("config-reused:header-vs-payload", f"config first used with zstd={level}, then set to zstd={other}: flags {d2[9]:#010b}, payload {'is' if d2[10:14] == ZSTD_MAGIC else 'is not'} a zstd frame")
                elif not _same_docs(docs_of(Package.from_bytes(d2)), before):
                    bad("config-reused:roundtrip", f"config first used with zstd={level}, then zstd={other}: package differs after the round trip")
            except Exception as e:  # noqa: BLE001
                bad("config-reused:raised", f"config first used with zstd={level}, then zstd={other}: {type(e).__name__}: {str(e)[:120]}")
    # the same Package object encoded again after its (mutable) contents changed
    if fmt == 63 and (spec[0] or spec[1]):
        try:
            if spec[0]:
                m0 = p.modules[0]
                m0[m0.root].metadata["later"] = ["é", 1]
            else:
                p.extensions.append(extensions()[(spec[1][0] + 1) % 3][1]())
            now = docs_of(p)
            again = docs_of(Package.from_bytes(p.to_bytes(cfg)))
            if not _same_docs(again, now):
                bad("second-encode-stale", "a second to_bytes() of the same Package after changing its contents does not carry the change")
        except Exception as e:  # noqa: BLE001
            bad("second-encode-raised", f"{type(e).__name__}: {str(e)[:150]}")
    return fails, skipped


def default_config_cases():
    """to_bytes()/to_str() without a configuration."""
    from hugr.package import Package

    fails = []
    p = build_package([[1], [1]])
    before = docs_of(p)
    for how in ("bytes", "str"):
        try:
            q = Package.from_bytes(p.to_bytes()) if how == "bytes" else Package.from_str(p.to_str())
            if not _same_docs(docs_of(q), before):
                fails.append((f"default-config:{how}:roundtrip", "default configuration does not round-trip"))
        except Exception as e:  # noqa: BLE001
            fails.append((f"default-config:{how}:raised", f"{type(e).__name__}: {e}"))
    return fails


def check_header_space():
    """All (format, flags) pairs, truncations and magic corruptions against R8."""
    from hugr.envelope import EnvelopeHeader, read_envelope

    fails = []
    n = 0
    for f in range(256):
        for fl in range(256):
            n += 1
            data = MAGIC + bytes([f, fl])
            try:
                h = EnvelopeHeader.from_bytes(data)
                got = (h.format.value, bool(h.zstd))
            except ValueError:
                got = "ValueError"
            except Exception as e:  # noqa: BLE001
                got = type(e).__name__
            exp = (f, bool(fl & 1)) if f in FORMATS else "ValueError"
            if got != exp:
                kind = "unknown-format-accepted" if f not in FORMATS else "decode"
                fails.append((f"header-decode:{kind}", f"from_bytes(magic+[{f},{fl}]) -> {got}, expected {exp}"))
                if len(fails) > 20:
                    return fails, n
    good = MAGIC + bytes([63, 0b01000000]) + b'{"modules":[],"extensions":[]}'
    for k in range(0, 10):
        n += 1
        for fn, nm in ((EnvelopeHeader.from_bytes, "from_bytes"), (read_envelope, "read_envelope")):
            try:
                fn(good[:k])
                fails.append((f"header-decode:truncated-accepted:{nm}", f"{nm} accepted {k} bytes"))
            except ValueError:
                pass
            except Exception as e:  # noqa: BLE001
                fails.append((f"header-decode:truncated:{nm}:{type(e).__name__}", f"{nm} on {k} bytes raised {type(e).__name__}, expected ValueError"))
    for i in range(8):
        for v in range(256):
            if v == MAGIC[i]:
                continue
            n += 1
            data = bytearray(good)
            data[i] = v
            for fn, nm in ((EnvelopeHeader.from_bytes, "from_bytes"), (read_envelope, "read_envelope")):
                try:
                    fn(bytes(data))
                    fails.append((f"header-decode:bad-magic-accepted:{nm}", f"{nm} accepted magic byte {i}={v}"))
                except ValueError:
                    pass
                except Exception as e:  # noqa: BLE001
                    fails.append((f"header-decode:bad-magic:{nm}:{type(e).__name__}", f"raised {type(e).__name__}, expected ValueError"))
            if len(fails) > 20:
                return fails, n
    # unknown format bytes must be rejected by the package reader as well
    for f in (0, 3, 62, 64, 255):
        n += 1
        try:
            read_envelope(MAGIC + bytes([f, 0b01000000]) + b"{}")
            fails.append(("read_envelope:unknown-format-accepted", f"format byte {f} decoded"))
        except ValueError:
            pass
        except Exception as e:  # noqa: BLE001
            fails.append((f"read_envelope:unknown-format:{type(e).__name__}", f"format byte {f}: {type(e).__name__}"))
    # header writer for every (format, zstd)
    from hugr.envelope import EnvelopeFormat

    for f in FORMATS:
        for z in (False, True):
            n += 1
            b = EnvelopeHeader(EnvelopeFormat(f), z).to_bytes()
            if b != MAGIC + bytes([f, 0b01000000 | int(z)]):
                fails.append(("header-encode", f"EnvelopeHeader({FORMATS[f]}, zstd={z}).to_bytes() = {b!r}"))
    return fails, n


def run(tier: str, seed: int) -> Result:
    col = Collector()
    n_pk = n_skip = 0
    specs = list(package_specs(tier))
    for spec in specs:
        for fmt in FORMATS:
            for level in LEVELS[tier]:
                n_pk += 1
                fails, sk = check_package(spec, fmt, level)
                n_skip += sk
                for sig, msg in fails:
                    col.add(sig, msg, {"package": spec, "format": fmt, "level": level})
    n_big = 0
    for spec in size_specs(tier):
        for level in (None, 0, 3):
            n_pk += 1
            n_big += 1
            fails, sk = check_package(spec, 63, level)
            n_skip += sk
            for sig, msg in fails:
                col.add(sig.replace(":JSON", ":JSON:size-ladder", 1) if ":JSON" in sig else sig + ":size-ladder", msg[:400], {"package": spec, "format": 63, "level": level})
    for sig, msg in default_config_cases():
        col.add(sig, msg, {"default": True})
    hf, n_h = check_header_space()
    for sig, msg in hf:
        col.add(sig, msg, {"header": True})
    col.sample({"package": specs[len(specs) // 2], "format": "JSON", "zstd": 3})
    col.sample({"header": "all 65536 (format, flags) pairs"})
    total = n_pk + n_h
    cov = {
        "states": len(specs),
        "transitions": total,
        "traces_validated_against_impl": total - n_skip,
        "evaluations": total,
        "distinct_nontrivial": len(specs) - 1 + 65536,
        "rule": "packages = ordered selections of <=2 (3) of 3 modules (one with non-ASCII names/metadata and null-carrying fields) x <=2 of "
        "3 extensions (incl. an op with signature+binary flag); x 3 formats x compression levels; to_bytes/from_bytes/to_str/from_str; header "
        "decoder on all 65536 (format, flags) pairs, truncations 0..9, every single-byte magic corruption; non-trivial = non-empty package or "
        "a header pair; size ladder: one module with a metadata string of n characters (n straddling 2^8, 2^16, 2^17 (thorough 2^20, 2^22), "
        "highly and poorly compressible) and packages of k small modules (k straddling 10, 100 (thorough 256), 130, 700), JSON x {none, default, 3}",
        "samples": col.samples,
        "exhaustive": True,
        "package_config_cases": n_pk,
        "skipped_native_module_formats": n_skip,
        "header_cases": n_h,
        "levels": [l for l in LEVELS[tier]],
        "size_ladder_cases": n_big,
        "size_ladder": {"payload_chars": SIZES[tier], "module_counts": COUNTS[tier], "contents": ["repetitive", "hash-chain hex"], "levels": [None, 0, 3]},
    }
    return Result(cov, col.violations, ["R8: 10-byte header layout from hugr-core/src/envelope/header.rs", "MODULE / MODULE_WITH_EXTS need the native module: counted as skipped, not as passed"])


def replay(case) -> list[Violation]:
    if "package" in case:
        out = check_package(case["package"], case["format"], case["level"])[0]
    elif "default" in case:
        out = default_config_cases()
    else:
        out = check_header_space()[0]
    return [Violation(s, m, case) for s, m in out]
