"""./check --selftest : self-tests of the reference models (the trusted base).

For every rule of R2 (Appendix A of DESIGN.md) a *negative* document is derived from a valid
builder-made document by one JSON-level edit and must be rejected by exactly that rule (other
rules may fire as well); the unedited documents must be accepted.  R4, R5, R9 and the schema
cache get a few positive/negative cases each.  Exit status 0 iff all expectations hold."""

from __future__ import annotations

import copy
import json


def _docs():
    from hugr import ops, tys, val
    from hugr.build.cfg import Cfg
    from hugr.build.dfg import Dfg
    from hugr.build.function import Module
    from hugr.std.int import INT_T, DivMod, IntVal
    from hugr.std.logic import Not

    B, Q = tys.Bool, tys.Qubit
    out = {}
    # nested DFG with an Ext wire + order edge, a linear wire, a constant
    d = Dfg(B, Q)
    b, q = d.inputs()
    n = d.add(Not(b))
    with d.add_nested(q) as inner:
        x = inner.add(Not(n))
        c = inner.load(val.Tuple(val.TRUE, IntVal(2, 5)))
        inner.set_outputs(inner.inputs()[0], x)
    d.set_outputs(*inner)
    out["nested"] = json.loads(d.hugr.to_json())
    # conditional
    d = Dfg(B, Q)
    b, q = d.inputs()
    with d.add_conditional(b, q) as cond:
        for i in range(2):
            with cond.add_case(i) as cs:
                cs.set_outputs(*cs.inputs())
    d.set_outputs(*cond)
    out["cond"] = json.loads(d.hugr.to_json())
    # cfg with a successor block using a Dom wire
    c = Cfg(B)
    with c.add_entry() as e:
        nb = e.add(Not(e.inputs()[0]))
        e.set_block_outputs(e.inputs()[0], nb)
    with c.add_successor(e[0]) as s:
        y = s.add(Not(nb))  # Dom edge from the entry block
        s.set_single_succ_outputs(y)
    c.branch_exit(s[0])
    c.branch_exit(e[1])
    out["cfg"] = json.loads(c.hugr.to_json())
    # module with a polymorphic function and calls
    m = Module()
    T = tys.Variable(0, tys.TypeBound.Copyable)
    f = m.define_function("id", [T], [T], [tys.TypeTypeParam(tys.TypeBound.Copyable)])
    f.set_outputs(*f.inputs())
    g = m.define_function("main", [B, INT_T, INT_T])
    b, i, j = g.inputs()
    r = g.call(f, b, instantiation=tys.FunctionType([B], [B]), type_args=[B.type_arg()])
    dm = g.add(DivMod(i, j))
    g.set_outputs(*r, dm[0])
    out["module"] = json.loads(m.hugr.to_json())
    # a function defined inside another function's body
    m = Module()
    g = m.define_function("outer", [B])
    inner = g.define_function("inner", [B], parent=g.parent_node)
    inner.set_outputs(*inner.inputs())
    r = g.call(inner, *g.inputs())
    g.set_outputs(*r)
    out["nestedfn"] = json.loads(m.hugr.to_json())
    return out


def _find(doc, op, k=0):
    return [i for i, n in enumerate(doc["nodes"]) if n["op"] == op][k]


def _edges_into(doc, node, off):
    return [i for i, e in enumerate(doc["edges"]) if e[1][0] == node and e[1][1] == off]


def cases():
    """(name, rule expected, document)"""
    base = _docs()
    out = []

    def neg(name, rule, key, edit):
        d = copy.deepcopy(base[key])
        edit(d)
        out.append((name, rule, d))

    for k, d in base.items():
        out.append((f"valid:{k}", None, d))

    QT = {"t": "Q"}
    neg("V01 parent listed later", "V01", "nested", lambda d: d["nodes"][1].__setitem__("parent", 5))
    neg("V01 root not own parent", "V01", "nested", lambda d: d["nodes"][0].__setitem__("parent", 1))
    neg("V02 edge to missing node", "V02", "nested", lambda d: d["edges"].append([[1, 0], [99, 0]]))
    neg("V02 null offset on op without order port", "V02", "module", lambda d: d["edges"].append([[_find(d, "FuncDefn"), None], [_find(d, "Call"), None]]))
    neg("V03 offset past port count", "V03", "nested", lambda d: d["edges"].append([[1, 7], [2, 0]]))
    neg("V04 edge on the root", "V04", "nested", lambda d: d["edges"].append([[0, 0], [2, 0]]))
    neg("V05 Input under Module", "V05", "module", lambda d: d["nodes"][_find(d, "Input")].__setitem__("parent", 0))
    neg("V06 container without children", "V06", "nested", lambda d: d["nodes"].append({"parent": 0, "op": "DFG", "signature": {"t": "G", "input": [], "output": [], "runtime_reqs": []}}))

    def swap_io(d):
        i, o = _find(d, "Input"), _find(d, "Output")
        d["nodes"][i], d["nodes"][o] = d["nodes"][o], d["nodes"][i]
        sw = {i: o, o: i}
        d["edges"] = [[[sw.get(a, a), ao], [sw.get(b, b), bo]] for (a, ao), (b, bo) in d["edges"]]

    neg("V07 Output before Input", "V07", "nested", swap_io)
    neg("V07 Input row differs from signature", "V07", "nested", lambda d: d["nodes"][_find(d, "Input")].__setitem__("types", [QT]))
    neg("V08 exit row differs from CFG outputs", "V08", "cfg", lambda d: d["nodes"][_find(d, "ExitBlock")].__setitem__("cfg_outputs", [QT]))
    neg("V09 case signature differs", "V09", "cond", lambda d: d["nodes"][_find(d, "Case")]["signature"].__setitem__("output", []))
    neg("V09 case count differs", "V09", "cond", lambda d: d["nodes"][_find(d, "Conditional")]["sum_rows"].append([]))
    neg("V10 control edge row mismatch", "V10", "cfg", lambda d: d["nodes"][_find(d, "DataflowBlock", 1)].__setitem__("inputs", [QT]))
    neg("V11 types differ across an edge", "V11", "nested", lambda d: d["nodes"][_find(d, "Output")].__setitem__("types", [QT, QT]))

    def drop_input_edge(d):
        o = _find(d, "Output")
        del d["edges"][_edges_into(d, o, 0)[0]]

    neg("V12 unconnected input", "V12", "nested", drop_input_edge)
    neg("V12 input connected twice", "V12", "nested", lambda d: d["edges"].append(copy.deepcopy(d["edges"][_edges_into(d, _find(d, "Output"), 1)[0]])))

    def drop_linear(d):
        # the qubit goes Input.1 -> nested DFG: remove that edge and feed the DFG nothing (also V12)
        inp = _find(d, "Input")
        d["edges"] = [e for e in d["edges"] if not (e[0] == [inp, 1])]

    neg("V13 linear output unused", "V13", "nested", drop_linear)

    def cycle(d):
        nots = [i for i, n in enumerate(d["nodes"]) if n["op"] == "Extension" and n["parent"] == 0]
        dfg = _find(d, "DFG", 1)
        d["edges"].append([[dfg, 2], [nots[0], 1]])  # order edge nested DFG -> the Not that feeds it

    neg("V14 cycle through an order edge", "V14", "nested", cycle)

    def nonlocal_linear(d):
        # feed the inner Output's qubit from the *outer* Input directly
        inp = _find(d, "Input")
        inner_out = _find(d, "Output", 1)
        i = _edges_into(d, inner_out, 0)[0]
        d["edges"][i][0] = [inp, 1]

    neg("V15 non-local edge of a linear type", "V15", "nested", nonlocal_linear)

    def drop_order(d):
        d["edges"] = [e for e in d["edges"] if not (d["nodes"][e[0][0]]["op"] == "Extension" and d["nodes"][e[1][0]]["op"] == "DFG" and e[0][1] == 1)]

    neg("V16 Ext edge without its order edge", "V16", "nested", drop_order)

    def non_dominating(d):
        # make the successor's Not read the entry-block value from the *successor's own sibling*: swap
        # direction so that the source block (successor) does not dominate the entry
        blocks = [i for i, n in enumerate(d["nodes"]) if n["op"] == "DataflowBlock"]
        succ_not = [i for i, n in enumerate(d["nodes"]) if n["op"] == "Extension" and n["parent"] == blocks[1]][0]
        entry_not = [i for i, n in enumerate(d["nodes"]) if n["op"] == "Extension" and n["parent"] == blocks[0]][0]
        d["edges"].append([[succ_not, 0], [entry_not, 0]])

    neg("V17 Dom edge from a non-dominating block", "V17", "cfg", non_dominating)

    def into_func(d):
        # a value edge from main's Input into the body of `id`
        fid = _find(d, "FuncDefn")
        id_out = [i for i, n in enumerate(d["nodes"]) if n["op"] == "Output" and n["parent"] == fid][0]
        main = _find(d, "FuncDefn", 1)
        main_in = [i for i, n in enumerate(d["nodes"]) if n["op"] == "Input" and n["parent"] == main][0]
        d["edges"][_edges_into(d, id_out, 0)[0]][0] = [main_in, 0]

    neg("V17 value edge into a sibling function (common ancestor is not a CFG)", "V17", "module", into_func)

    def into_nested_func(d):
        # main's Input feeds the Output of a function defined *inside* main's body
        fns = [i for i, n in enumerate(d["nodes"]) if n["op"] == "FuncDefn"]
        outer, inner = fns[0], fns[1]
        outer_in = [i for i, n in enumerate(d["nodes"]) if n["op"] == "Input" and n["parent"] == outer][0]
        inner_out = [i for i, n in enumerate(d["nodes"]) if n["op"] == "Output" and n["parent"] == inner][0]
        d["edges"][_edges_into(d, inner_out, 0)[0]][0] = [outer_in, 0]

    neg("V18 value edge into a nested function body", "V18", "nestedfn", into_nested_func)

    def cousin(d):
        # inner Not (in the nested DFG) feeds the outer Output directly
        inner = _find(d, "DFG", 1)
        inner_not = [i for i, n in enumerate(d["nodes"]) if n["op"] == "Extension" and n["parent"] == inner][0]
        d["edges"][_edges_into(d, _find(d, "Output"), 1)[0]][0] = [inner_not, 0]

    neg("V19 source deeper than target", "V19", "nested", cousin)

    def bad_const(d):
        c = d["nodes"][_find(d, "Const")]
        c["v"]["vs"].pop()

    neg("V20 tuple constant: type/arity mismatch with its load", "V11", "nested", bad_const)

    def bad_sum_tag(d):
        c = d["nodes"][_find(d, "Const")]
        c["v"] = {"v": "Sum", "tag": 5, "typ": {"t": "Sum", "s": "Unit", "size": 2}, "vs": []}

    neg("V20 sum constant with tag out of range", "V20", "nested", bad_sum_tag)
    neg("V21 free type variable", "V21", "module", lambda d: d["nodes"][_find(d, "FuncDefn")]["signature"].__setitem__("params", []))
    neg("V22 instantiation is not the applied signature", "V22", "module", lambda d: d["nodes"][_find(d, "Call")]["instantiation"].__setitem__("output", [QT]))
    neg("V22 wrong number of type args", "V22", "module", lambda d: d["nodes"][_find(d, "Call")].__setitem__("type_args", []))

    def ext_sig(d):
        n = [x for x in d["nodes"] if x["op"] == "Extension" and x["name"] == "idivmod_u"][0]
        n["args"] = [{"tya": "BoundedNat", "n": 3}]

    neg("V23 stored signature differs from the scheme", "V23", "module", ext_sig)
    neg("V23 unknown extension op", "V23", "nested", lambda d: d["nodes"][[i for i, n in enumerate(d["nodes"]) if n["op"] == "Extension"][0]].__setitem__("name", "Nope"))

    def opaque_bound(d):
        def walk(x):
            if isinstance(x, dict):
                if x.get("t") == "Opaque" and x.get("id") == "int":
                    x["bound"] = "A"
                for v in x.values():
                    walk(v)
            elif isinstance(x, list):
                for v in x:
                    walk(v)

        walk(d["nodes"])

    neg("V24 std opaque type with the wrong bound", "V24", "module", opaque_bound)
    return out


def main() -> int:
    from mc.drivers import terms as T
    from mc.ref import dot as D
    from mc.ref import schema as S
    from mc.ref.validate import validate
    from mc.ref.values import Inhabit, value_type

    bad = 0
    n = 0
    for name, rule, doc in cases():
        n += 1
        errs = validate(doc)
        rules = sorted({r for r, _ in errs})
        if rule is None:
            ok = not errs
        else:
            ok = rule in rules
        print(f"{'ok  ' if ok else 'FAIL'} R2 {name}: expected {rule or 'accept'}, got {rules or 'accept'}")
        bad += not ok
    # published schema agrees on the valid documents and rejects a malformed node
    for k, d in _docs().items():
        n += 1
        e = S.hugr_errors(d)
        print(f"{'ok  ' if not e else 'FAIL'} schema accepts valid:{k} {e[:1]}")
        bad += bool(e)
    d = copy.deepcopy(_docs()["nested"])
    d["nodes"][1]["types"] = "oops"
    n += 1
    e = S.hugr_errors(d)
    print(f"{'ok  ' if e else 'FAIL'} schema rejects a malformed node")
    bad += not e
    # R4
    r4 = [
        ({"v": "Sum", "tag": 1, "typ": {"s": "Unit", "size": 2}, "vs": []}, True),
        ({"v": "Sum", "tag": 2, "typ": {"s": "Unit", "size": 2}, "vs": []}, False),
        ({"v": "Sum", "tag": 0, "typ": {"s": "General", "rows": [[{"t": "Q"}]]}, "vs": []}, False),
        ({"v": "Tuple", "vs": [{"v": "Sum", "tag": 0, "typ": {"s": "Unit", "size": 1}, "vs": []}]}, True),
    ]
    for doc, ok_exp in r4:
        n += 1
        try:
            value_type(doc)
            ok = ok_exp
        except Inhabit:
            ok = not ok_exp
        print(f"{'ok  ' if ok else 'FAIL'} R4 {json.dumps(doc)[:70]} expected {'inhabits' if ok_exp else 'rejected'}")
        bad += not ok
    # R5
    for spec, b in ((["Tuple", [T.BOOL, T.QB]], "A"), (["Sum", []], "C"), (["array", 2, T.QB], "A"), (["G", [T.QB], [T.QB], []], "C")):
        n += 1
        ok = T.ref_bound(spec) == b
        print(f"{'ok  ' if ok else 'FAIL'} R5 bound {spec} == {b}")
        bad += not ok
    # R9
    g = D.parse('digraph { a=b\n subgraph cluster0 { 0 [label=<<B>x</B><TD PORT="in.0"></TD>> shape=plain] }\n 0:"out.0" -> 1:"in.-1" [label="T<a>" color="#fff"] }')
    n += 1
    ok = g.subgraphs[0].name == "cluster0" and g.edges == [("0", "out.0", "1", "in.-1", {"label": ("str", "T<a>"), "color": ("str", "#fff")})] and D.label_info(g.subgraphs[0].nodes[0][1]["label"][1]) == ("x", ["0"], [])
    print(f"{'ok  ' if ok else 'FAIL'} R9 reads clusters, ports and edges")
    bad += not ok
    g = D.parse('digraph { edge [color=red penwidth=2]\n node [shape=plain]\n subgraph cluster0 { 0 }\n 0 -> 1 [color=blue]\n "edge" [x=y] }')
    n += 1
    ok = (g.edges == [("0", None, "1", None, {"color": ("id", "blue"), "penwidth": ("id", "2")})] and [x[0] for x in g.nodes] == ["edge"]
          and g.subgraphs[0].nodes == [("0", {"shape": ("id", "plain")})])
    print(f"{'ok  ' if ok else 'FAIL'} R9 default-attribute statements are not nodes and are inherited")
    bad += not ok
    print(f"selftest: {n - bad}/{n} expectations hold")
    return 1 if bad else 0
