"""E1 - explicit-state breadth-first search over histories of a mutable object.

A *state* is represented by the (shortest, first-found) event history that reaches it;
`machine.replay(hist)` re-executes the history on fresh real objects and on the reference
model in lock-step.  Every transition is therefore an execution of the implementation that is
compared with the model (traces_validated_against_impl == transitions).

Machine protocol (duck-typed):
    initial()            -> S          fresh implementation object(s) + reference model
    enabled(S)           -> [event]    finite menu, computed from the *reference* view; JSON-able
    step(S, event)       -> [(signature, message)]   applies the event to implementation and
                                         model, compares outcome and all queries
    canon(S)             -> hashable   canonical form (see DESIGN.md section 2 for the argument)
    outcome(S, event)    -> hashable   optional, classifies what was observed (vacuity monitor)
"""

from __future__ import annotations

from dataclasses import dataclass, field

from .core import Collector, pmap

_MACHINE = None  # set before forking so workers inherit it


def replay(machine, hist, light_prefix: bool = False):
    """Re-executes a history from scratch.  With light_prefix the oracle comparison is skipped on
    all but the last event (the prefix was fully checked when it was first explored); an
    exception or a failed step inside the prefix is still a hard divergence error."""
    s = machine.initial()
    fails = []
    for i, ev in enumerate(hist):
        if light_prefix and i < len(hist) - 1:
            fails = machine.step(s, ev, light=True)
        else:
            fails = machine.step(s, ev)
        if fails:
            break
    return s, fails


def _prefix(m, hist):
    s = m.initial()
    for ev in hist:
        fails = m.step(s, ev, light=True)
        assert not fails, f"prefix replay diverged: {hist} at {ev} -> {fails}"
    return s


def _expand(hist):
    m = _MACHINE
    s = _prefix(m, hist)
    out = []
    for ev in m.enabled(s):
        s2 = _prefix(m, hist)
        fails = m.step(s2, ev)
        oc = m.outcome(s2, ev) if hasattr(m, "outcome") else None
        if fails:
            out.append((ev, None, fails, oc))
        else:
            out.append((ev, _digest(m.canon(s2)), [], oc))
    return out


def _digest(key) -> bytes:
    """16-byte digest of a canonical form (keeps the `seen` set small; a collision would need
    ~2^64 states)."""
    import hashlib

    return hashlib.blake2b(repr(key).encode(), digest_size=16).digest()


@dataclass
class E1Stats:
    states: int = 0
    transitions: int = 0
    depth_completed: int = 0
    frontier_left: int = 0
    closed: bool = False
    outcomes: set = field(default_factory=set)
    per_depth: list = field(default_factory=list)


def explore(machine, max_depth: int, col: Collector, procs: int | None = None, sig_prefix: str = "") -> E1Stats:
    global _MACHINE
    _MACHINE = machine
    st = E1Stats()
    s0 = machine.initial()
    seen = {_digest(machine.canon(s0))}
    frontier: list[list] = [[]]
    st.states = 1
    depth = 0
    import sys, time

    t0 = time.time()
    while frontier and depth < max_depth:
        results = pmap(_expand, frontier, chunksize=max(1, min(100, len(frontier) // 256)), procs=procs)
        nxt = []
        for hist, outs in zip(frontier, results):
            for ev, key, fails, oc in outs:
                st.transitions += 1
                if oc is not None:
                    st.outcomes.add(oc)
                if fails:
                    for sig, msg in fails:
                        col.add(sig_prefix + sig, msg, {"history": hist + [ev]})
                    continue
                if key not in seen:
                    seen.add(key)
                    nxt.append(hist + [ev])
                    col.sample(hist + [ev]) if len(hist) >= 2 else None
        depth += 1
        print(f"  [e1] depth {depth}: +{len(nxt)} states, total {len(seen)}, transitions {st.transitions}, "
              f"{time.time() - t0:.1f}s", file=sys.stderr, flush=True)
        st.per_depth.append(len(nxt))
        frontier = nxt
        st.states = len(seen)
    st.depth_completed = depth
    st.frontier_left = len(frontier)
    st.closed = not frontier
    return st
