"""Runner: executes one property check, applies the known-findings protocol, writes the
evidence file and the replay artefacts, and turns the outcome into the exit status the
interface demands (0 = held / only listed findings, 1 = VIOLATION printed)."""

from __future__ import annotations

import argparse
import hashlib
import importlib
import json
import os
import sys
import time
import traceback
from pathlib import Path

from .core import Result, Violation

VERIF = Path(__file__).resolve().parents[2]
EVIDENCE = VERIF / "evidence"
REPLAYS = VERIF / "replays"
KNOWN = VERIF / "known_findings.json"


def load_known() -> list[dict]:
    if not KNOWN.exists():
        return []
    return json.loads(KNOWN.read_text())


def check_module(pid: str):
    return importlib.import_module(f"mc.checks.{pid.lower()}")


def _sha(s: str) -> str:
    return hashlib.sha1(s.encode()).hexdigest()[:10]


def write_replay(pid: str, v: Violation) -> Path:
    REPLAYS.mkdir(exist_ok=True)
    path = REPLAYS / f"{pid}-{_sha(v.signature)}.json"
    path.write_text(
        json.dumps(
            {
                "property": pid,
                "signature": v.signature,
                "message": v.message,
                "case": v.case,
                "replay_cmd": f"./check --replay {path}",
            },
            indent=1,
            default=str,
        )
    )
    return path


def run_check(pid: str, tier: str) -> int:
    seed = int(os.environ.get("VERIF_SEED", "0") or 0)
    mod = check_module(pid)
    t0 = time.time()
    res: Result = mod.run(tier, seed)
    wall = time.time() - t0

    known = [k for k in load_known() if k.get("property") == pid]
    known_sigs = {k["signature"]: k for k in known if k.get("status") == "known"}

    # group by signature, first occurrence wins (explorers are breadth-first / simplest-first,
    # so the first witness of a signature is also the smallest one)
    by_sig: dict[str, Violation] = {}
    counts: dict[str, int] = {}
    for v in res.violations:
        counts[v.signature] = counts.get(v.signature, 0) + 1
        by_sig.setdefault(v.signature, v)

    unlisted = 0
    seen_known: set[str] = set()
    replay_cache: dict = {}  # (round, case) -> signatures reproduced; many signatures may share one case
    for sig, v in by_sig.items():
        # determinism gate: the recorded case must fail identically twice, from scratch
        ok = True
        if hasattr(mod, "replay"):
            for rnd in range(2):
                key = (rnd, json.dumps(v.case, sort_keys=True, default=str))
                if key not in replay_cache:
                    try:
                        replay_cache[key] = {a.signature for a in mod.replay(v.case)}
                    except Exception:  # noqa: BLE001
                        traceback.print_exc()
                        replay_cache[key] = set()
                if sig not in replay_cache[key]:
                    ok = False
        if not ok:
            print(
                f"HARNESS-ERROR property={pid} signature={sig!r}: violation did not "
                "reproduce on replay (uncaptured nondeterminism)"
            )
            unlisted += 1
            path = write_replay(pid, v)
            print(f"VIOLATION property={pid} replay={path}")
            continue
        if sig in known_sigs:
            seen_known.add(sig)
            print(f"KNOWN-FINDING: property={pid} {sig} :: {known_sigs[sig].get('description', '')}")
        else:
            unlisted += 1
            path = write_replay(pid, v)
            print(f"  {sig} (x{counts[sig]}): {v.message}")
            print(f"VIOLATION property={pid} replay={path}")

    cov = dict(res.coverage)
    cov.setdefault("exhaustive", True)
    evidence = {
        "property_id": pid,
        "tier": tier,
        "seed": seed,
        "level": res.level,
        "coverage": cov,
        "assumptions": res.assumptions,
        "wall_s": round(wall, 3),
        "violations": unlisted,
        "known_findings_reproduced": sorted(seen_known),
        "repo": os.environ.get("HUGR_REPO", "/repo"),
    }
    # evidence under /verif/evidence is only ever written from runs against /repo itself;
    # seeded-change experiments (HUGR_REPO=<scratch>) write theirs next to the scratch copy
    evdir = EVIDENCE if os.path.realpath(evidence["repo"]) == "/repo" else Path("/tmp/verif-evidence-scratch")
    evdir.mkdir(exist_ok=True)
    (evdir / f"{pid}.json").write_text(json.dumps(evidence, indent=1, default=str))
    # a copy per tier, so that the last thorough run stays on record when the quick tier runs again
    (evdir / "by_tier").mkdir(exist_ok=True)
    (evdir / "by_tier" / f"{pid}.{tier}.json").write_text(json.dumps(evidence, indent=1, default=str))

    keys = ("states", "transitions", "traces_validated_against_impl", "evaluations", "distinct_nontrivial")
    summ = " ".join(f"{k}={cov[k]}" for k in keys if k in cov)
    print(f"[{pid}] tier={tier} seed={seed} {summ} violations={unlisted} known={len(seen_known)} wall={wall:.1f}s")
    return 1 if unlisted else 0


def run_replay(path: str) -> int:
    rec = json.loads(Path(path).read_text())
    pid = rec["property"]
    mod = check_module(pid)
    got = mod.replay(rec["case"])
    sigs = {v.signature for v in got}
    if rec["signature"] in sigs:
        for v in got:
            if v.signature == rec["signature"]:
                print(f"REPRODUCED property={pid} {v.signature}: {v.message}")
                break
        print(f"VIOLATION property={pid} replay={path}")
        return 1
    print(f"NOT-REPRODUCED property={pid} {rec['signature']} (other signatures seen: {sorted(sigs)})")
    return 0


def main() -> int:
    ap = argparse.ArgumentParser()
    ap.add_argument("pid", nargs="?")
    ap.add_argument("--tier", default=os.environ.get("VERIF_TIER", "quick"), choices=["quick", "thorough"])
    ap.add_argument("--replay")
    ap.add_argument("--selftest", action="store_true")
    a = ap.parse_args()
    if a.replay:
        return run_replay(a.replay)
    if a.selftest:
        from . import selftest

        return selftest.main()
    if not a.pid:
        ap.error("property id required")
    return run_check(a.pid.upper(), a.tier)


if __name__ == "__main__":
    sys.exit(main())
