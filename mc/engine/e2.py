"""E2 - exhaustive enumeration of builder programs (operation sequences) of a scenario.

Depth-first over the tree of call prefixes up to `max_calls` free calls.  Every prefix is a
state (replayed from scratch on fresh builders); every prefix is extended by the deterministic
default completion to a complete program, and every distinct complete program is judged by the
oracles.  Work is sharded over prefixes of length `shard_depth`."""

from __future__ import annotations

import hashlib
import json
import traceback
from dataclasses import dataclass, field

from mc.drivers import bpm
from mc.engine.core import pmap

_JOB = None  # (scenarios by name, oracle factory) inherited by forked workers


@dataclass
class E2Result:
    states: int = 0
    transitions: int = 0
    complete_programs: int = 0
    distinct_documents: int = 0
    dropped_uncompletable: int = 0
    builder_raised: int = 0
    raised_samples: list = field(default_factory=list)
    fails: list = field(default_factory=list)  # (sig, msg, case)
    features: dict = field(default_factory=dict)
    samples: list = field(default_factory=list)
    nontrivial: int = 0
    keys: set = field(default_factory=set)
    aux: int = 0  # evaluations counted by a state oracle (e.g. faulty calls executed)

    def merge(self, o: "E2Result"):
        self.states += o.states
        self.transitions += o.transitions
        self.complete_programs += o.complete_programs
        self.dropped_uncompletable += o.dropped_uncompletable
        self.builder_raised += o.builder_raised
        self.raised_samples += o.raised_samples[: max(0, 5 - len(self.raised_samples))]
        self.fails += o.fails
        self.nontrivial += o.nontrivial
        self.keys |= o.keys
        self.aux += o.aux
        for k, v in o.features.items():
            self.features[k] = self.features.get(k, 0) + v
        self.samples += o.samples[: max(0, 4 - len(self.samples))]


def replay_prefix(sc, prog):
    ctx = bpm.start(sc)
    for call in prog:
        bpm.apply(ctx, call)
    return ctx


def _subtree(job):
    sc_name, prefix, max_calls, free0, expand = job
    scs, oracle, state_oracle = _JOB
    sc = scs[sc_name]
    res = E2Result()
    seen_complete = set()
    stack = [(list(prefix), free0)]
    while stack:
        prog, free = stack.pop()
        try:
            ctx = replay_prefix(sc, prog)
        except bpm.WellFormednessBug:
            raise
        except Exception as e:  # noqa: BLE001  a builder call raised on a well-formed program
            res.builder_raised += 1
            if len(res.raised_samples) < 5:
                res.raised_samples.append({"scenario": sc_name, "program": prog, "error": f"{type(e).__name__}: {e}", "where": traceback.format_exc(limit=-2)[-300:]})
            continue
        res.states += 1
        res.transitions += len(prog)
        if state_oracle is not None:
            try:
                sfails = state_oracle(sc, ctx, prog)
                if isinstance(sfails, tuple):
                    sfails, cnt = sfails
                    res.aux += cnt
                for sig, msg in sfails:
                    res.fails.append((sig, msg, {"scenario": sc_name, "program": prog, "state": True}))
            except Exception as e:  # noqa: BLE001
                res.fails.append(("state-oracle-exception", f"{type(e).__name__}: {e} {traceback.format_exc(limit=-3)[-400:]}", {"scenario": sc_name, "program": prog, "state": True}))
        if bpm.complete(ctx):
            full = prog
            menu = []
        else:
            menu = bpm.enabled(ctx)
            try:
                comp = bpm.default_completion(ctx)
            except bpm.WellFormednessBug:
                raise
            except Exception as e:  # noqa: BLE001
                res.builder_raised += 1
                if len(res.raised_samples) < 5:
                    res.raised_samples.append({"scenario": sc_name, "program": prog, "error": f"completion: {type(e).__name__}: {e}", "where": traceback.format_exc(limit=-2)[-300:]})
                comp = None
            if comp is None:
                res.dropped_uncompletable += 1
                full = None
            else:
                full = prog + comp
                res.transitions += len(comp)
        if full is not None:
            key = hashlib.blake2b(json.dumps([sc_name, full]).encode(), digest_size=8).digest()
            if key not in seen_complete:
                seen_complete.add(key)
                res.keys.add(key)
                res.complete_programs += 1
                if ctx.features:
                    res.nontrivial += 1
                for f in ctx.features:
                    res.features[f] = res.features.get(f, 0) + 1
                if len(res.samples) < 2 and len(full) >= 3:
                    res.samples.append({"scenario": sc_name, "program": full})
                try:
                    for sig, msg in (oracle(sc, ctx, full) if oracle is not None else []):
                        res.fails.append((sig, msg, {"scenario": sc_name, "program": full}))
                    for k, v in getattr(ctx, "counters", {}).items():  # what the oracle itself enumerated for this program
                        res.features["oracle:" + k] = res.features.get("oracle:" + k, 0) + v
                except Exception as e:  # noqa: BLE001
                    res.fails.append(("oracle-exception", f"{type(e).__name__}: {e} {traceback.format_exc(limit=-3)[-400:]}", {"scenario": sc_name, "program": full}))
        # forced steps (a menu with a single entry) do not count against the free-call bound
        if expand and menu and (free < max_calls or len(menu) == 1):
            nfree = free + (1 if len(menu) > 1 else 0)
            for call in reversed(menu):
                stack.append((prog + [call], nfree))
    res.fails = res.fails[:400]
    return res


def explore(scenarios: dict, oracle, plan: list, shard_depth: int = 2, procs=None, state_oracle=None) -> E2Result:
    """plan: list of (scenario name, max_calls).  `oracle` judges complete programs, `state_oracle`
    every prefix state (it must not mutate the context it is given)."""
    global _JOB
    _JOB = (scenarios, oracle, state_oracle)
    jobs = []
    total = E2Result()
    for sc_name, max_calls in plan:
        sc = scenarios[sc_name]
        # the master enumerates the shallow prefixes itself; deeper subtrees go to the workers
        frontier = [([], 0)]
        for level in range(8):
            # deeper bounds get finer shards: subtree sizes are very uneven and the slowest shard is the wall time
            if level >= shard_depth and len(frontier) >= (256 if max_calls <= 3 else 4096):
                break
            nxt = []
            for prog, free in frontier:
                try:
                    ctx = replay_prefix(sc, prog)
                except Exception:  # noqa: BLE001
                    continue
                menu = [] if bpm.complete(ctx) else bpm.enabled(ctx)
                if menu and (free < max_calls or len(menu) == 1):
                    nfree = free + (1 if len(menu) > 1 else 0)
                    for call in menu:
                        nxt.append((prog + [call], nfree))
                jobs.append((sc_name, prog, max_calls, free, False))  # judged, not expanded
            frontier = nxt
        for prog, free in frontier:
            jobs.append((sc_name, prog, max_calls, free, True))
    results = pmap(_subtree, jobs, chunksize=1 if len(jobs) < 50000 else 4, procs=procs)
    for r in results:
        total.merge(r)
    total.distinct_documents = len(total.keys)
    total.keys = set()
    return total
