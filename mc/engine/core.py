"""Shared data types and helpers of the explorers."""

from __future__ import annotations

import multiprocessing as mp
import os
import random
from dataclasses import dataclass, field
from typing import Any, Callable, Iterable


@dataclass
class Violation:
    #: stable description of *what* fails (oracle clause + shape of the minimal case);
    #: never contains counts or run-specific values that change between runs
    signature: str
    message: str
    #: JSON-able description of the failing case, enough for `replay(case)`
    case: Any


@dataclass
class Result:
    coverage: dict
    violations: list[Violation] = field(default_factory=list)
    assumptions: list[str] = field(default_factory=list)
    level: str = "model_checking"


class Collector:
    """Accumulates violations (bounded memory: a few witnesses per signature, in the order
    found, which for the breadth-first explorers is smallest-first) and samples."""

    def __init__(self, per_sig: int = 3, max_samples: int = 6):
        self.violations: list[Violation] = []
        self._per_sig: dict[str, int] = {}
        self.total = 0
        self.per_sig = per_sig
        self.samples: list[Any] = []
        self.max_samples = max_samples

    def add(self, signature: str, message: str, case: Any) -> None:
        self.total += 1
        n = self._per_sig.get(signature, 0)
        self._per_sig[signature] = n + 1
        if n < self.per_sig:
            self.violations.append(Violation(signature, message, case))

    def extend(self, vs: Iterable[Violation]) -> None:
        for v in vs:
            self.add(v.signature, v.message, v.case)

    def sample(self, s: Any) -> None:
        if len(self.samples) < self.max_samples:
            self.samples.append(s)


def seeded_rng(seed: int, salt: str = "") -> random.Random:
    return random.Random(f"{seed}:{salt}")


def permuted(xs: list, seed: int, salt: str = "") -> list:
    """Seed-dependent permutation of an alphabet.  With seed 0 the order is the written
    (simplest-first) one.  Exhaustive enumeration makes verdicts independent of it."""
    xs = list(xs)
    if seed:
        seeded_rng(seed, salt).shuffle(xs)
    return xs


def ncpu() -> int:
    try:
        return max(1, min(16, len(os.sched_getaffinity(0))))
    except AttributeError:  # pragma: no cover
        return max(1, min(16, os.cpu_count() or 1))


def pmap(fn: Callable, items: list, chunksize: int = 1, procs: int | None = None) -> list:
    """Ordered parallel map over a fork pool (fork once per call, never per execution).
    `fn` must be a module-level function; results must be picklable."""
    procs = procs or ncpu()
    if procs <= 1 or len(items) <= 1:
        return [fn(x) for x in items]
    ctx = mp.get_context("fork")
    with ctx.Pool(min(procs, len(items))) as pool:
        return pool.map(fn, items, chunksize)


def exc_name(e: BaseException) -> str:
    return type(e).__name__


def jleaf(x):
    """Type-strict spelling of a JSON scalar: Python's == conflates true/1/1.0 and false/0/0.0/-0.0,
    JSON documents do not."""
    if isinstance(x, bool):
        return ("bool", x)
    if isinstance(x, float):
        return ("float", repr(x))
    return x


def jstrict(x):
    """A JSON-like value with every scalar replaced by its type-strict spelling (for == comparison)."""
    if isinstance(x, list):
        return [jstrict(y) for y in x]
    if isinstance(x, tuple):
        return tuple(jstrict(y) for y in x)
    if isinstance(x, dict):
        return {k: jstrict(v) for k, v in x.items()}
    return jleaf(x)
