"""Scenario families of the builder-program machine (DESIGN.md section 2, E2)."""

from mc.drivers.bpm import B, I, Q, Scenario

SUM_BQ = [[B], [Q]]  # Either([B],[Q])
VC = ["V", 0, "C"]

SCENARIOS = {
    # D - plain dataflow: nesting with Ext wires, order edges, tuples, linear values
    "D1": Scenario("D1", "dfg", [B, Q], ops=("Not", "Noop", "MakeTuple", "UnpackTuple"), containers=("nested",), orders=True, max_depth=3),
    # D2 - multi-output op partially used + constants + order edges
    "D2": Scenario("D2", "dfg", [I, I], ops=("DivMod", "Noop", "MakeTuple"), loads=("INT", "TUP"), containers=("nested",), orders=True, max_depth=2),
    # D0 - unit rows / zero-output graphs
    "D0": Scenario("D0", "dfg", [], ops=("MakeTuple", "UnpackTuple", "Noop"), loads=("TRUE", "UNIT"), containers=("nested",), orders=True, max_depth=3),
    # C - conditionals over sums incl. linear variant rows
    "C1": Scenario("C1", "dfg", [B, Q], ops=("Not", "Noop"), containers=("cond", "if"), tags=((0, SUM_BQ), (1, SUM_BQ)), max_depth=2, loads=("TRUE",)),
    # L - tail loops
    "L1": Scenario("L1", "dfg", [B, Q], ops=("Not", "Noop"), containers=("loop",), max_depth=2, loads=("TRUE",)),
    # G - control-flow graphs
    "G1": Scenario("G1", "dfg", [B, Q], ops=("Not", "Noop"), containers=("cfg",), max_depth=3, loads=("TRUE",), extra={"max_blocks": 3}),
    # M - module with functions, calls, function values
    "M1": Scenario(
        "M1", "module", [], ops=("Not", "Noop"), loads=("TRUE",), containers=("nested",), max_depth=3, orders=True,
        funcs=(("f", [B], [B]), ("main", [B, Q], None)), extra={"fn_ops": ("call", "loadfn", "callind")},
    ),
    # M2 - polymorphic and row-polymorphic functions: calls with instantiations (arity may change)
    "M2": Scenario(
        "M2", "module", [], ops=("Noop", "MakeTuple"), loads=(), containers=("nested",), max_depth=3,
        funcs=(("pid", [VC], [VC], [["TP", "C"]]), ("main", [B, I], None)),
        extra={
            "fn_ops": ("call", "loadfn", "callind"),
            "inst_types": [B, I],
            "decls": (
                ("rowp", ["Poly", [["LP", ["TP", "A"]]], ["G", [["R", 0, "A"]], [B, ["R", 0, "A"]], []]],
                 [([["SeqA", []]], [], [B]), ([["SeqA", [["TA", B], ["TA", I]]]], [B, I], [B, B, I])]),
            ),
        },
    ),
    # M3 - control flow inside a function body
    "M3": Scenario(
        "M3", "module", [], ops=("Not", "Noop"), loads=("TRUE",), containers=("cond", "if", "loop", "cfg"), max_depth=3,
        funcs=(("main", [B, Q], None),), extra={"max_blocks": 3},
    ),
    # M4 - metadata on nodes + order edges + a function called more than once + a constant loaded more than once
    "M4": Scenario(
        "M4", "module", [], ops=("Not", "Noop"), loads=("TRUE",), containers=("nested",), max_depth=3, orders=True,
        funcs=(("f", [B], [B]), ("main", [B, B], None)), extra={"fn_ops": ("call",), "metadata": True},
    ),
}
