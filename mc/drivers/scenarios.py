"""Scenario families of the builder-program machine (DESIGN.md section 2, E2)."""

from mc.drivers.bpm import B, I, Q, Scenario

SUM_BQ = [[B], [Q]]  # Either([B],[Q])
VC = ["V", 0, "C"]

SCENARIOS = {
    # D - plain dataflow: nesting with Ext wires, order edges, tuples, linear values
    "D1": Scenario("D1", "dfg", [B, Q], ops=("Not", "Noop", "MakeTuple", "UnpackTuple"), containers=("nested",), orders=True, max_depth=3),
    # D2 - multi-output op partially used + constants + order edges
    "D2": Scenario("D2", "dfg", [I, I], ops=("DivMod", "Noop", "MakeTuple"), loads=("INT", "TUP"), containers=("nested",), orders=True, max_depth=2),
    # D0 - unit rows / zero-output graphs
    "D0": Scenario("D0", "dfg", [], ops=("MakeTuple", "UnpackTuple", "Noop"), loads=("TRUE", "UNIT"), containers=("nested",), orders=True, max_depth=3),
    # C - conditionals over sums incl. linear variant rows
    "C1": Scenario("C1", "dfg", [B, Q], ops=("Not", "Noop"), containers=("cond", "if"), tags=((0, SUM_BQ), (1, SUM_BQ)), max_depth=2, loads=("TRUE",)),
    # L - tail loops
    "L1": Scenario("L1", "dfg", [B, Q], ops=("Not", "Noop"), containers=("loop",), max_depth=2, loads=("TRUE",)),
    # G - control-flow graphs
    "G1": Scenario("G1", "dfg", [B, Q], ops=("Not", "Noop"), containers=("cfg",), max_depth=3, loads=("TRUE",), extra={"max_blocks": 3}),
    # M - module with functions, calls, function values
    "M1": Scenario(
        "M1", "module", [], ops=("Not", "Noop"), loads=("TRUE",), containers=("nested",), max_depth=3, orders=True,
        funcs=(("f", [B], [B]), ("main", [B, Q], None)), extra={"fn_ops": ("call", "loadfn", "callind")},
    ),
    # M2 - polymorphic and row-polymorphic functions: calls with instantiations (arity may change)
    "M2": Scenario(
        "M2", "module", [], ops=("Noop", "MakeTuple"), loads=(), containers=("nested",), max_depth=3,
        funcs=(("pid", [VC], [VC], [["TP", "C"]]), ("main", [B, I], None)),
        extra={
            "fn_ops": ("call", "loadfn", "callind"),
            "inst_types": [B, I],
            "decls": (
                ("rowp", ["Poly", [["LP", ["TP", "A"]]], ["G", [["R", 0, "A"]], [B, ["R", 0, "A"]], []]],
                 [([["SeqA", []]], [], [B]), ([["SeqA", [["TA", B], ["TA", I]]]], [B, I], [B, B, I])]),
            ),
        },
    ),
    # M3 - control flow inside a function body
    "M3": Scenario(
        "M3", "module", [], ops=("Not", "Noop"), loads=("TRUE",), containers=("cond", "if", "loop", "cfg"), max_depth=3,
        funcs=(("main", [B, Q], None),), extra={"max_blocks": 3},
    ),
    # M4 - metadata on nodes + order edges + a function called more than once + a constant loaded more than once
    "M4": Scenario(
        "M4", "module", [], ops=("Not", "Noop"), loads=("TRUE",), containers=("nested",), max_depth=3, orders=True,
        funcs=(("f", [B], [B]), ("main", [B, B], None)), extra={"fn_ops": ("call",), "metadata": True},
    ),
    # D3 - constants as separate nodes (local / root, loaded twice) and inserted fragments
    "D3": Scenario("D3", "dfg", [B], ops=("Not",), loads=("TRUE", "INT"), containers=("nested",), max_depth=2,
                   extra={"const_ops": True, "inserts": ("dfg", "cfg", "cond", "loop")}),
    # C2 - conditional over a 3-variant unit sum, linear other-inputs
    "C2": Scenario("C2", "dfg", [Q], ops=("Noop",), loads=("U3",), containers=("cond",), max_depth=2),
    # K1 - tracked dataflow builder driven by indices
    "K1": Scenario("K1", "tracked", [B, I, I], ops=("Not", "Noop", "DivMod"), loads=(), max_depth=1),
    # M5 - a function defined inside a dataflow region, module-level constants
    "M5": Scenario(
        "M5", "module", [], ops=("Not",), loads=("TRUE",), containers=("nested",), max_depth=3,
        funcs=(("main", [B], None),),
        extra={"fn_ops": ("call", "loadfn"), "local_defs": (("inner", [B], [B]),), "const_ops": True, "max_consts": 1},
    ),
    # G2 - containers nested inside basic blocks, linear values through blocks
    "G2": Scenario("G2", "dfg", [Q, B], ops=("Noop",), containers=("cfg", "nested"), max_depth=4, extra={"max_blocks": 2}),
    # L2 - loops with a linear rest value and nesting
    "L2": Scenario("L2", "dfg", [Q, B], ops=("Noop", "Not"), containers=("loop", "nested"), max_depth=3),
    # R* - stand-alone roots other than Dfg / Module
    "RG": Scenario("RG", "cfg", [B], ops=("Not",), loads=("TRUE",), containers=(), max_depth=3, extra={"max_blocks": 3}),
    "RC": Scenario("RC", "cond", [Q], ops=("Noop",), loads=("TRUE", "U3"), containers=(), max_depth=2, extra={"sum_rows": [[], [B], [B, B]]}),
    "RL": Scenario("RL", "loop", [Q], ops=("Noop", "Not"), loads=("TRUE",), containers=(), max_depth=2, extra={"ji": [B]}),
    "RF": Scenario("RF", "func", [B, Q], ops=("Not", "Noop"), loads=("TRUE",), containers=("nested",), max_depth=3, orders=True),
    # M4b - order edges only (to Output and to siblings, in either order) with metadata
    "M4b": Scenario("M4b", "module", [], ops=("Not",), loads=(), containers=(), max_depth=2, orders=True,
                    funcs=(("main", [B], None),), extra={"metadata": True}),
    # M6 - a function declared with an empty output row
    "M6": Scenario("M6", "module", [], ops=("Not",), loads=(), containers=(), max_depth=2,
                   funcs=(("nothing", [B], []), ("main", [B], None)), extra={"fn_ops": ("call",)}),
    # M7 - a function declared *after* the function that calls / loads it was opened (forward reference to a declaration)
    "M7": Scenario("M7", "module", [], ops=("Not",), loads=(), containers=("nested",), max_depth=2,
                   funcs=(("helper", [B], [B]), ("main", [B], None)),
                   extra={"fn_ops": ("call", "loadfn"), "late_decls": (("late", ["Poly", [], ["G", [B], [B], []]], [([], [B], [B])]),)}),
    # K2 - tracked builder over a user extension with linear and mixed-type gates (circuit style)
    "K2": Scenario("K2", "tracked", [Q, Q, B], ops=("H", "CX", "Measure", "CFlip"), loads=(), max_depth=1, extra={"track_later": True}),
    # Q1 - the same gates in a plain dataflow graph with a conditional on a measurement result
    "Q1": Scenario("Q1", "dfg", [Q, Q], ops=("H", "CX", "Measure", "CFlip"), loads=(), containers=("cond",), max_depth=2),
}
