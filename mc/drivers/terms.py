"""E3 - term grammars.  A term is a JSON-able *spec tree*; it has two independent
interpretations:

  build_*(spec)   -> the hugr-py object (code under test)
  ref_*_json(spec)/ref_bound(spec)/... -> what the HUGR specification / schema says about it
                     (reference, written without importing hugr)

Type specs
  ["Q"] qubit            ["I"] usize              ["Unit", n] unit sum of n variants
  ["V", i, b] variable   ["R", i, b] row variable ["Alias", name, b]
  ["Opaque", ext, id, b, [args]]
  ["int", w] ["float"] ["string"] ["array", n, T] ["list", T] ["sarray", T]   std extension types
  ["Sum", [row, ...]] ["Tuple", row] ["Option", row] ["Either", row, row]
  ["G", row, row, [reqs]]   function type           ["Poly", [params], G]
Arg specs   ["TA", T] ["NA", n] ["SA", s] ["SeqA", [args]] ["EA", [exts]] ["VA", i, param]
Param specs ["TP", b] ["NP", bound|None] ["SP"] ["LP", param] ["TupP", [params]] ["EP"]
"""

from __future__ import annotations

import itertools

C, A = "C", "A"

# --------------------------------------------------------------------------- reference side
STD_TYPES = {
    # name -> (extension, id)
    "int": ("arithmetic.int.types", "int"),
    "float": ("arithmetic.float.types", "float64"),
    "string": ("prelude", "string"),
    "array": ("collections.array", "array"),
    "list": ("collections.list", "List"),
    "sarray": ("collections.static_array", "static_array"),
}


def join(bounds) -> str:
    return A if any(b == A for b in bounds) else C


def ref_bound(t) -> str:
    """R5 - bound calculus of the specification."""
    k = t[0]
    if k == "Q":
        return A
    if k in ("I", "Unit", "G", "Poly", "int", "float", "string"):
        return C
    if k in ("V", "R"):
        return t[2]
    if k == "Alias":
        return t[2]
    if k == "Opaque":
        return t[3]
    if k == "array":
        return ref_bound(t[2])
    if k in ("list", "sarray"):
        return ref_bound(t[1])
    if k == "Sum":
        return join(ref_bound(x) for row in t[1] for x in row)
    if k in ("Tuple", "Option"):
        return join(ref_bound(x) for x in t[1])
    if k == "Either":
        return join(ref_bound(x) for x in [*t[1], *t[2]])
    raise AssertionError(t)


def ref_rows(t):
    """Variant rows of a sum-like spec."""
    k = t[0]
    if k == "Unit":
        return [[] for _ in range(t[1])]
    if k == "Sum":
        return t[1]
    if k == "Tuple":
        return [t[1]]
    if k == "Option":
        return [[], t[1]]
    if k == "Either":
        return [t[1], t[2]]
    raise AssertionError(t)


def is_sum(t):
    return t[0] in ("Unit", "Sum", "Tuple", "Option", "Either")


def ref_type_json(t):
    k = t[0]
    if k == "Q":
        return {"t": "Q"}
    if k == "I":
        return {"t": "I"}
    if k == "Unit":
        return {"t": "Sum", "s": "Unit", "size": t[1]}
    if k == "V":
        return {"t": "V", "i": t[1], "b": t[2]}
    if k == "R":
        return {"t": "R", "i": t[1], "b": t[2]}
    if k == "Alias":
        return {"t": "Alias", "bound": t[2], "name": t[1]}
    if k == "Opaque":
        return {"t": "Opaque", "extension": t[1], "id": t[2], "args": [ref_arg_json(a) for a in t[4]], "bound": t[3]}
    if k in STD_TYPES:
        ext, id_ = STD_TYPES[k]
        if k == "int":
            args = [{"tya": "BoundedNat", "n": t[1]}]
        elif k in ("float", "string"):
            args = []
        elif k == "array":
            args = [{"tya": "BoundedNat", "n": t[1]}, {"tya": "Type", "ty": ref_type_json(t[2])}]
        else:
            args = [{"tya": "Type", "ty": ref_type_json(t[1])}]
        return {"t": "Opaque", "extension": ext, "id": id_, "args": args, "bound": ref_bound(t)}
    if is_sum(t):
        return {"t": "Sum", "s": "General", "rows": [[ref_type_json(x) for x in row] for row in ref_rows(t)]}
    if k == "G":
        return {
            "t": "G",
            "input": [ref_type_json(x) for x in t[1]],
            "output": [ref_type_json(x) for x in t[2]],
            "runtime_reqs": list(t[3]),
        }
    if k == "Poly":
        return {"params": [ref_param_json(p) for p in t[1]], "body": ref_type_json(t[2])}
    raise AssertionError(t)


def ref_arg_json(a):
    k = a[0]
    if k == "TA":
        return {"tya": "Type", "ty": ref_type_json(a[1])}
    if k == "NA":
        return {"tya": "BoundedNat", "n": a[1]}
    if k == "SA":
        return {"tya": "String", "arg": a[1]}
    if k == "SeqA":
        return {"tya": "Sequence", "elems": [ref_arg_json(x) for x in a[1]]}
    if k == "EA":
        return {"tya": "Extensions", "es": list(a[1])}
    if k == "VA":
        return {"tya": "Variable", "idx": a[1], "cached_decl": ref_param_json(a[2])}
    raise AssertionError(a)


def ref_param_json(p):
    k = p[0]
    if k == "TP":
        return {"tp": "Type", "b": p[1]}
    if k == "NP":
        return {"tp": "BoundedNat", "bound": p[1]}
    if k == "SP":
        return {"tp": "String"}
    if k == "LP":
        return {"tp": "List", "param": ref_param_json(p[1])}
    if k == "TupP":
        return {"tp": "Tuple", "params": [ref_param_json(x) for x in p[1]]}
    if k == "EP":
        return {"tp": "Extensions"}
    raise AssertionError(p)


def norm_type_json(j):
    """Semantic normal form of a type document: the Unit spelling of a sum whose rows are all
    empty is rewritten to the General spelling; runtime_reqs / es are sets."""
    if isinstance(j, list):
        return [norm_type_json(x) for x in j]
    if not isinstance(j, dict):
        return j
    if j.get("t") == "Sum" and j.get("s") == "Unit":
        return {"t": "Sum", "s": "General", "rows": [[] for _ in range(j["size"])]}
    out = {}
    for k, v in j.items():
        if k in ("runtime_reqs", "es", "extension_delta", "extensions") and isinstance(v, list):
            out[k] = sorted(v)
        else:
            out[k] = norm_type_json(v)
    return out


# --------------------------------------------------------------------------- hugr side
def build_type(t):
    from hugr import tys
    from hugr.tys import TypeBound

    B = {"C": TypeBound.Copyable, "A": TypeBound.Any}
    k = t[0]
    if k == "Q":
        return tys.Qubit
    if k == "I":
        return tys.USize()
    if k == "Unit":
        return {1: tys.Unit, 2: tys.Bool}.get(t[1]) or tys.UnitSum(t[1])
    if k == "V":
        return tys.Variable(t[1], B[t[2]])
    if k == "R":
        return tys.RowVariable(t[1], B[t[2]])
    if k == "Alias":
        return tys.Alias(t[1], B[t[2]])
    if k == "Opaque":
        return tys.Opaque(id=t[2], bound=B[t[3]], args=[build_arg(a) for a in t[4]], extension=t[1])
    if k == "int":
        from hugr.std.int import int_t

        return int_t(t[1])
    if k == "float":
        from hugr.std.float import FLOAT_T

        return FLOAT_T
    if k == "string":
        from hugr.std.prelude import STRING_T

        return STRING_T
    if k == "array":
        from hugr.std.collections.array import Array

        return Array(build_type(t[2]), t[1])
    if k == "list":
        from hugr.std.collections.list import List

        return List(build_type(t[1]))
    if k == "sarray":
        from hugr.std.collections.static_array import StaticArray

        return StaticArray(build_type(t[1]))
    if k == "Sum":
        return tys.Sum([[build_type(x) for x in row] for row in t[1]])
    if k == "Tuple":
        return tys.Tuple(*[build_type(x) for x in t[1]])
    if k == "Option":
        return tys.Option(*[build_type(x) for x in t[1]])
    if k == "Either":
        return tys.Either([build_type(x) for x in t[1]], [build_type(x) for x in t[2]])
    if k == "G":
        return tys.FunctionType([build_type(x) for x in t[1]], [build_type(x) for x in t[2]], list(t[3]))
    if k == "Poly":
        return tys.PolyFuncType([build_param(p) for p in t[1]], build_type(t[2]))
    raise AssertionError(t)


def build_arg(a):
    from hugr import tys

    k = a[0]
    if k == "TA":
        return tys.TypeTypeArg(build_type(a[1]))
    if k == "NA":
        return tys.BoundedNatArg(a[1])
    if k == "SA":
        return tys.StringArg(a[1])
    if k == "SeqA":
        return tys.SequenceArg([build_arg(x) for x in a[1]])
    if k == "EA":
        return tys.ExtensionsArg(list(a[1]))
    if k == "VA":
        return tys.VariableArg(a[1], build_param(a[2]))
    raise AssertionError(a)


def build_param(p):
    from hugr import tys
    from hugr.tys import TypeBound

    B = {"C": TypeBound.Copyable, "A": TypeBound.Any}
    k = p[0]
    if k == "TP":
        return tys.TypeTypeParam(B[p[1]])
    if k == "NP":
        return tys.BoundedNatParam(p[1])
    if k == "SP":
        return tys.StringParam()
    if k == "LP":
        return tys.ListParam(build_param(p[1]))
    if k == "TupP":
        return tys.TupleParam([build_param(x) for x in p[1]])
    if k == "EP":
        return tys.ExtensionsParam()
    raise AssertionError(p)


# --------------------------------------------------------------------------- grammars
BOOL = ["Unit", 2]
UNIT = ["Unit", 1]
QB = ["Q"]
INT5 = ["int", 5]

PARAMS = [["TP", C], ["TP", A], ["NP", None], ["NP", 7], ["SP"], ["EP"], ["LP", ["TP", A]], ["TupP", [["TP", C], ["NP", 3]]],
          ["LP", ["TupP", [["SP"]]]], ["TupP", []]]


def arg_specs():
    """All 6 arg kinds, nested once."""
    base = [["TA", BOOL], ["TA", QB], ["NA", 0], ["NA", 5], ["SA", ""], ["SA", "hé✓"], ["SA", "  padded\n"], ["VA", 2, ["NP", None]], ["EA", []], ["EA", ["a.b", "c"]],
            ["VA", 0, ["TP", A]], ["VA", 1, ["NP", 7]]]
    out = list(base)
    out.append(["SeqA", []])
    for b in base:
        out.append(["SeqA", [b]])
    out.append(["SeqA", [["TA", QB], ["NA", 2]]])
    out.append(["SeqA", [["SeqA", [["TA", BOOL]]]]])
    out.append(["TA", ["Opaque", "ext.x", "T", A, [["TA", QB]]]])
    out.append(["TA", ["G", [QB], [BOOL], ["r"]]])
    return out


def leaf_types():
    return [
        QB, ["I"], BOOL, UNIT, ["Unit", 3], ["Unit", 0],
        ["V", 0, C], ["V", 1, A], ["Alias", "al", C], ["Alias", "lin", A], ["Alias", " padded ", C],
        ["Opaque", "ext.x", "Tc", C, []], ["Opaque", "ext.x", "Tl", A, [["TA", QB]]],
        ["Opaque", "ext.y", "Tn", C, [["NA", 3], ["SA", "s"], ["SeqA", [["TA", BOOL]]]]],
        INT5, ["int", 0], ["float"], ["string"],
        ["array", 2, BOOL], ["array", 0, QB], ["list", QB], ["list", INT5], ["sarray", BOOL], ["sarray", ["float"]],
    ]


def rows_over(elems, maxlen, allow_rowvar=False):
    rows = [[]]
    for n in range(1, maxlen + 1):
        for combo in itertools.product(elems, repeat=n):
            rows.append(list(combo))
    if allow_rowvar:
        rows.append([["R", 0, A]])
        rows.append([BOOL, ["R", 1, C]])
    return rows


def composites(elems, maxlen, max_variants, reqs=((), ("ext.x",))):
    """One constructor application over rows of `elems`."""
    rows = rows_over(elems, maxlen)
    out = []
    for nv in range(0, max_variants + 1):
        for vs in itertools.product(rows, repeat=nv):
            out.append(["Sum", [list(r) for r in vs]])
    for r in rows:
        out.append(["Tuple", r])
        out.append(["Option", r])
    for l, r in itertools.product(rows, repeat=2):
        out.append(["Either", l, r])
    for i, o in itertools.product(rows, repeat=2):
        for rq in reqs:
            out.append(["G", i, o, list(rq)])
    return out


REPS1 = [BOOL, QB, ["V", 0, C], ["Opaque", "ext.x", "Tl", A, [["TA", QB]]], INT5]


def reps_level(level_types):
    """Representatives of a level used as building blocks of the next one: one per
    (constructor, bound) class, first in enumeration order."""
    seen = {}
    for t in level_types:
        key = (t[0], ref_bound(t), len(ref_rows(t)) if is_sum(t) else 0)
        if key not in seen and t not in (["Sum", []],):
            seen[key] = t
    return list(seen.values())


def type_specs(tier):
    """The bounded type grammar: leaves; level 1 = one constructor over rows (len<=2) of REPS1;
    level 2 = one constructor over rows of {Bool, Qubit} + representatives of level 1;
    thorough adds level 3 and 3-variant sums."""
    leaves = leaf_types()
    xd = tier == "xdeep"
    deep = tier in ("deep", "xdeep")
    l1 = composites(REPS1, 3 if xd else 2, 2)
    # std containers over level-1 element types
    r1 = reps_level(l1)
    cont1 = []
    for e in r1:
        cont1 += [["array", 1, e], ["list", e]]
    big = tier in ("thorough", "deep", "xdeep")
    l2 = composites([BOOL, QB, *r1[: 6 if not deep else 12 if xd else 9]], 2 if big else 1, 2)
    out = leaves + l1 + cont1 + l2
    if big:
        r2 = reps_level(l2)
        l3 = composites([QB, *r2[: 5 if not deep else 12 if xd else 9]], 1 if not deep else 2, 2)
        l1b = [["Sum", [list(a), list(b), list(c)]] for a, b, c in itertools.product(rows_over([BOOL, QB], 1), repeat=3)]
        out += l3 + l1b
        for e in r2[: 8 if not xd else 40]:
            out += [["array", 1, e], ["list", e]]
        if xd:
            r3 = reps_level(l3)
            out += composites([BOOL, *r3[:7]], 2, 1)
            l1c = [["Sum", [list(r) for r in vs]] for vs in itertools.product(rows_over([BOOL, QB], 2), repeat=3)]
            l1d = [["Sum", [list(r) for r in vs]] for vs in itertools.product(rows_over([BOOL, QB], 1), repeat=4)]
            out += l1c + l1d
    # dedupe preserving order
    seen, res = set(), []
    for t in out:
        k = repr(t)
        if k not in seen:
            seen.add(k)
            res.append(t)
    return res
