"""Store-history machine: drives hugr.Hugr's mutation API and the R1 port-multigraph model in
lock-step and compares every public query after every event (used by C04, reused by C08)."""

from __future__ import annotations

from collections import Counter

from mc.ref.portgraph import PortGraph

ORDER = -1


def _ms(xs):
    return Counter(xs)


def compare_store(h, ref: PortGraph, offs=(0, 1), extra_idx=2, ctx="") -> list[tuple[str, str]]:
    """All queries of the C04 statement, implementation vs model.  Only public API is used."""
    from hugr.hugr.node_port import Direction, InPort, Node, OutPort

    fails: list[tuple[str, str]] = []

    def bad(what, msg):
        fails.append((f"{ctx}:{what}", msg))

    live = sorted(ref.nodes)
    # --- count / iteration / lookup
    if len(h) != len(live) or h.num_nodes() != len(live):
        bad("len", f"len(h)={len(h)} num_nodes={h.num_nodes()} model={len(live)}")
    it = [n.idx for n in h]
    if sorted(it) != live or len(set(it)) != len(it):
        bad("iter", f"iteration yields {it}, model live nodes {live}")
    items = sorted(n.idx for n, _ in h.nodes())
    if items != live:
        bad("nodes()", f"nodes() yields {items}, model {live}")
    top = (max(live) if live else 0) + extra_idx
    for idx in range(top + 1):
        try:
            data = h[Node(idx)]
            got = True
        except KeyError:
            got = False
        if got != (idx in ref.nodes):
            bad("lookup", f"h[Node({idx})] {'found' if got else 'KeyError'}, model says {'live' if idx in ref.nodes else 'dead'}")
            continue
        if not got:
            continue
        rn = ref.nodes[idx]
        if data.op is not rn.op and data.op != rn.op:
            bad("op", f"node {idx} holds {data.op!r}, model {rn.op!r} (live nodes must keep their index)")
        p = data.parent.idx if data.parent is not None else None
        if p != rn.parent:
            bad("parent", f"node {idx} parent {p}, model {rn.parent}")
        ch = [c.idx for c in h.children(Node(idx))]
        if ch != rn.children:
            bad("children", f"children({idx}) = {ch}, model {rn.children}")
        if dict(data.metadata) != rn.metadata:
            bad("metadata", f"node {idx} metadata {data.metadata!r}, model {rn.metadata!r}")
    if [c.idx for c in h.children()] != ref.nodes[ref.root].children:
        bad("children-default", "children() without argument differs from the root's children")
    if fails:
        return fails  # later queries would raise on dead nodes
    # --- links()
    got_links = _ms((s.node.idx, s.offset, d.node.idx, d.offset) for s, d in h.links())
    if got_links != ref.link_multiset():
        extra = got_links - ref.link_multiset()
        missing = ref.link_multiset() - got_links
        bad("links()", f"links() multiset differs: extra={dict(extra)} missing={dict(missing)}")
    for s, d in h.links():
        for p in (s, d):
            if p.node.idx not in ref.nodes:
                bad("links()-dead", f"links() mentions dead node {p.node.idx}")
    # --- per port
    all_offs = [*offs, ORDER]
    for idx in live:
        n = Node(idx)
        n_in, n_out = h.num_in_ports(n), h.num_out_ports(n)
        if h.num_ports(n, Direction.INCOMING) != n_in or h.num_ports(n, Direction.OUTGOING) != n_out:
            bad("num_ports", f"num_ports({idx}) disagrees with num_in_ports/num_out_ports")
        rn = ref.nodes[idx]
        if n_out < ref.max_out(idx) + 1:
            bad("num_out_ports<used", f"num_out_ports({idx})={n_out} but offset {ref.max_out(idx)} is in use")
        if n_in < ref.max_in(idx) + 1:
            bad("num_in_ports<used", f"num_in_ports({idx})={n_in} but offset {ref.max_in(idx)} is in use")
        if rn.req_outs is not None and n_out < rn.req_outs:
            bad("num_out_ports<requested", f"num_out_ports({idx})={n_out} < requested {rn.req_outs}")
        for off in all_offs:
            got = _ms((p.node.idx, p.offset) for p in h.linked_ports(OutPort(n, off)))
            exp = _ms(ref.out_links(idx, off))
            if got != exp:
                bad("linked_ports(out)", f"linked_ports(out {idx}:{off}) = {dict(got)}, model {dict(exp)}")
            got = _ms((p.node.idx, p.offset) for p in h.linked_ports(InPort(n, off)))
            exp = _ms(ref.in_links(idx, off))
            if got != exp:
                bad("linked_ports(in)", f"linked_ports(in {idx}:{off}) = {dict(got)}, model {dict(exp)}")
        # listings: one entry per offset below the reported count
        outl = list(h.outgoing_links(n))
        got_offs = [p.offset for p, _ in outl]
        if outl and got_offs != list(range(n_out)):
            bad("outgoing_links-offsets", f"outgoing_links({idx}) lists offsets {got_offs}, reported count {n_out}")
        listed = Counter()
        for p, tgts in outl:
            if p.node.idx != idx:
                bad("outgoing_links-node", f"outgoing_links({idx}) lists a port of node {p.node.idx}")
            for t in tgts:
                listed[(idx, p.offset, t.node.idx, t.offset)] += 1
        exp = _ms(l for l in ref.links if l[0] == idx and l[1] >= 0)
        if listed != exp:
            bad("outgoing_links", f"outgoing_links({idx}) = {dict(listed)}, model {dict(exp)}")
        inl = list(h.incoming_links(n))
        got_offs = [p.offset for p, _ in inl]
        if inl and got_offs != list(range(n_in)):
            bad("incoming_links-offsets", f"incoming_links({idx}) lists offsets {got_offs}, reported count {n_in}")
        listed = Counter()
        for p, srcs in inl:
            for t in srcs:
                listed[(t.node.idx, t.offset, idx, p.offset)] += 1
        exp = _ms(l for l in ref.links if l[2] == idx and l[3] >= 0)
        if listed != exp:
            bad("incoming_links", f"incoming_links({idx}) = {dict(listed)}, model {dict(exp)}")
        got = _ms(m.idx for m in h.outgoing_order_links(n))
        exp = _ms(d for (d, _) in ref.out_links(idx, ORDER))
        if got != exp:
            bad("outgoing_order_links", f"outgoing_order_links({idx}) = {dict(got)}, model {dict(exp)}")
        got = _ms(m.idx for m in h.incoming_order_links(n))
        exp = _ms(s for (s, _) in ref.in_links(idx, ORDER))
        if got != exp:
            bad("incoming_order_links", f"incoming_order_links({idx}) = {dict(got)}, model {dict(exp)}")
    # --- has_link over the port alphabet
    for s in live:
        for so in all_offs:
            for d in live:
                for do in all_offs:
                    if (so == ORDER) != (do == ORDER):
                        continue
                    got = h.has_link(OutPort(Node(s), so), InPort(Node(d), do))
                    exp = ref.count(s, so, d, do) > 0
                    if bool(got) != exp:
                        bad("has_link", f"has_link({s}:{so} -> {d}:{do}) = {got}, model {exp}")
    return fails
