"""Operation and value term grammars (E3) with their two interpretations:
build_op / build_value (hugr-py objects) and the reference side: ref_op_json, ref_value_json
(the published wire format), ref_sig (R3: the specification's signature table) and
ref_value_type (R4: the type a value inhabits).

Op specs
  ["Module"] ["Input", row] ["Output", row] ["DFG", in, out, delta] ["CFG", in, out]
  ["DataflowBlock", inputs, sum_rows, other_outputs, delta] ["ExitBlock", row]
  ["Conditional", sum_rows, other_inputs, outputs] ["Case", in, out]
  ["TailLoop", just_in, just_out, rest, delta]
  ["FuncDefn", name, params, in, out] ["FuncDecl", name, poly]
  ["Const", value] ["LoadConst", T] ["Call", poly, inst, args] ["LoadFunc", poly, inst, args]
  ["CallIndirect", G] ["Tag", tag, rows] ["Some", row] ["Left", l, r] ["Right", l, r]
  ["Continue", l, r] ["Break", l, r]
  ["Custom", ext, name, G, description, args]
  ["MakeTuple", row] ["UnpackTuple", row] ["Noop", T] ["Not"] ["DivMod", w]
  ["AliasDecl", name, b] ["AliasDefn", name, T]
Value specs
  ["Sum", tag, sumtype, [vals]] ["UnitSum", tag, size] ["TRUE"] ["FALSE"] ["UnitV"]
  ["TupleV", [vals]] ["SomeV", [vals]] ["NoneV", row] ["LeftV", [vals], row] ["RightV", row, [vals]]
  ["IntV", v, w] ["FloatV", f] ["StringV", s] ["ArrayV", [vals], T] ["ListV", [vals], T]
  ["SArrayV", [vals], T, name] ["ExtV", name, T, payload, exts] ["FuncV", fragname]
"""

from __future__ import annotations

import itertools

from . import terms as T
from .terms import A, BOOL, C, INT5, QB, UNIT, ref_rows, ref_type_json


# =============================================================================== values
def ref_value_type(v):
    """R4 on specs: the type (spec) a value spec inhabits."""
    k = v[0]
    if k == "Sum":
        return v[2]
    if k == "UnitSum":
        return ["Unit", v[2]]
    if k in ("TRUE", "FALSE"):
        return BOOL
    if k == "UnitV":
        return UNIT
    if k == "TupleV":
        return ["Tuple", [ref_value_type(x) for x in v[1]]]
    if k == "SomeV":
        return ["Option", [ref_value_type(x) for x in v[1]]]
    if k == "NoneV":
        return ["Option", v[1]]
    if k == "LeftV":
        return ["Either", [ref_value_type(x) for x in v[1]], v[2]]
    if k == "RightV":
        return ["Either", v[1], [ref_value_type(x) for x in v[2]]]
    if k == "IntV":
        return ["int", v[2]]
    if k == "FloatV":
        return ["float"]
    if k == "StringV":
        return ["string"]
    if k == "ArrayV":
        return ["array", len(v[1]), v[2]]
    if k == "ListV":
        return ["list", v[2]]
    if k == "SArrayV":
        return ["sarray", v[2]]
    if k == "ExtV":
        return v[2]
    if k == "FuncV":
        return FRAGMENTS[v[1]][1]
    raise AssertionError(v)


def ref_value_tag(v):
    return {"Sum": lambda: v[1], "UnitSum": lambda: v[1], "TRUE": lambda: 1, "FALSE": lambda: 0, "UnitV": lambda: 0,
            "TupleV": lambda: 0, "SomeV": lambda: 1, "NoneV": lambda: 0, "LeftV": lambda: 0, "RightV": lambda: 1}[v[0]]()


def ref_value_fields(v):
    k = v[0]
    if k == "Sum":
        return v[3]
    if k in ("UnitSum", "TRUE", "FALSE", "UnitV", "NoneV"):
        return []
    if k in ("TupleV", "SomeV", "LeftV"):
        return v[1]
    if k == "RightV":
        return v[2]
    raise AssertionError(v)


def is_sum_value(v):
    return v[0] in ("Sum", "UnitSum", "TRUE", "FALSE", "UnitV", "TupleV", "SomeV", "NoneV", "LeftV", "RightV")


def _sumtype_json(t):
    """Sum types inside a value document keep the Unit spelling when written from a unit sum."""
    return ref_type_json(t)


def ref_value_json(v):
    k = v[0]
    if k == "TupleV":
        return {"v": "Tuple", "vs": [ref_value_json(x) for x in v[1]]}
    if is_sum_value(v):
        return {
            "v": "Sum",
            "tag": ref_value_tag(v),
            "typ": {k2: v2 for k2, v2 in _sumtype_json(ref_value_type(v)).items()},
            "vs": [ref_value_json(x) for x in ref_value_fields(v)],
        }
    if k == "IntV":
        return _ext_json(["int", v[2]], "ConstInt", {"log_width": v[2], "value": v[1]}, ["arithmetic.int.types"])
    if k == "FloatV":
        return _ext_json(["float"], "ConstF64", {"value": v[1]}, ["arithmetic.float.types"])
    if k == "StringV":
        return _ext_json(["string"], "ConstString", {"value": v[1]}, ["prelude"])
    if k == "ArrayV":
        return _ext_json(ref_value_type(v), "ArrayValue", {"values": [ref_value_json(x) for x in v[1]], "typ": ref_type_json(v[2])}, ["collections.array"])
    if k == "ListV":
        return _ext_json(ref_value_type(v), "ListValue", {"values": [ref_value_json(x) for x in v[1]], "typ": ref_type_json(v[2])}, ["collections.list"])
    if k == "SArrayV":
        return _ext_json(
            ref_value_type(v), "StaticArrayValue",
            {"value": {"values": [ref_value_json(x) for x in v[1]], "typ": ref_type_json(v[2])}, "name": v[3]},
            ["collections.static_array"],
        )
    if k == "ExtV":
        return _ext_json(v[2], v[1], v[3], v[4])
    if k == "FuncV":
        return {"v": "Function", "hugr": "<fragment>"}
    raise AssertionError(v)


def _ext_json(t, name, payload, exts):
    return {"v": "Extension", "extensions": list(exts), "typ": ref_type_json(t), "value": {"c": name, "v": payload}}


def build_value(v, one_shot=False):
    """one_shot: pass one-shot iterators wherever the API accepts an Iterable."""
    from hugr import val

    k = v[0]
    it = (lambda xs: iter(list(xs))) if one_shot else (lambda xs: list(xs))
    if k == "Sum":
        return val.Sum(v[1], T.build_type(v[2]), [build_value(x) for x in v[3]])
    if k == "UnitSum":
        return val.UnitSum(v[1], v[2])
    if k == "TRUE":
        return val.TRUE
    if k == "FALSE":
        return val.FALSE
    if k == "UnitV":
        return val.Unit
    if k == "TupleV":
        return val.Tuple(*[build_value(x, one_shot) for x in v[1]])
    if k == "SomeV":
        return val.Some(*[build_value(x, one_shot) for x in v[1]])
    if k == "NoneV":
        return val.None_(*[T.build_type(t) for t in v[1]])
    if k == "LeftV":
        return val.Left(it(build_value(x, one_shot) for x in v[1]), it(T.build_type(t) for t in v[2]))
    if k == "RightV":
        return val.Right(it(T.build_type(t) for t in v[1]), it(build_value(x, one_shot) for x in v[2]))
    if k == "IntV":
        from hugr.std.int import IntVal

        return IntVal(v[1], v[2])
    if k == "FloatV":
        from hugr.std.float import FloatVal

        return FloatVal(v[1])
    if k == "StringV":
        from hugr.std.prelude import StringVal

        return StringVal(v[1])
    if k == "ArrayV":
        from hugr.std.collections.array import ArrayVal

        return ArrayVal([build_value(x) for x in v[1]], T.build_type(v[2]))
    if k == "ListV":
        from hugr.std.collections.list import ListVal

        return ListVal([build_value(x) for x in v[1]], T.build_type(v[2]))
    if k == "SArrayV":
        from hugr.std.collections.static_array import StaticArrayVal

        return StaticArrayVal([build_value(x) for x in v[1]], T.build_type(v[2]), v[3])
    if k == "ExtV":
        return val.Extension(v[1], T.build_type(v[2]), v[3], list(v[4]))
    if k == "FuncV":
        return val.Function(FRAGMENTS[v[1]][0]())
    raise AssertionError(v)


def _frag_id():
    from hugr import tys
    from hugr.build.dfg import Dfg

    d = Dfg(tys.Bool)
    d.set_outputs(*d.inputs())
    return d.hugr


def _frag_not_q():
    from hugr import tys
    from hugr.build.dfg import Dfg
    from hugr.std.logic import Not

    d = Dfg(tys.Bool, tys.Qubit)
    b, q = d.inputs()
    n = d.add(Not(b), metadata={"inner": [1, "é"], "t": True, "one": 1})  # metadata *inside* the function body
    d.add_state_order(d.input_node, n)
    d.set_outputs(q, n, n)
    d.hugr[d.hugr.root].metadata["body-root"] = {"k": None}
    return d.hugr


def _frag_funcdefn():
    from hugr import tys
    from hugr.build.dfg import Function

    f = Function("inner", [tys.Qubit])
    f.set_outputs(*f.inputs())
    return f.hugr


def _frag_empty():
    from hugr.build.dfg import Dfg

    d = Dfg()
    d.set_outputs()
    return d.hugr


def _frag_loop_root():
    from hugr import ops, tys
    from hugr.build.cond_loop import TailLoop

    t = TailLoop([tys.Bool], [tys.Qubit])
    b, q = t.inputs()
    tag = t.add_op(ops.Break(tys.Either([tys.Bool], [tys.Bool, tys.Bool])), b, b)
    t.set_loop_outputs(tag, q)
    return t.hugr


def _frag_id_reqs():
    """A DFG-rooted body whose signature carries runtime requirements: the builders never set any, so the
    body is obtained the public way a user gets one - by loading a document."""
    import json

    from hugr.hugr import Hugr

    doc = json.loads(_frag_id().to_json())
    doc["nodes"][0]["signature"]["runtime_reqs"] = ["arithmetic.int", "ext.x"]
    return Hugr.load_json(json.dumps(doc))


#: name -> (thunk building the hugr, function type spec of the value)
FRAGMENTS = {
    # the body of a TailLoop maps just_inputs + rest to [Sum(just_inputs, just_outputs), *rest]
    "looproot": (_frag_loop_root, ["G", [BOOL, QB], [["Sum", [[BOOL], [BOOL, BOOL]]], QB], []]),
    "id": (_frag_id, ["G", [BOOL], [BOOL], []]),
    "notq": (_frag_not_q, ["G", [BOOL, QB], [QB, BOOL, BOOL], []]),
    "fdef": (_frag_funcdefn, ["G", [QB], [QB], []]),
    "empty": (_frag_empty, ["G", [], [], []]),
    "idreq": (_frag_id_reqs, ["G", [BOOL], [BOOL], ["arithmetic.int", "ext.x"]]),
}


def value_specs(tier):
    """Bounded value grammar: leaves, then constructors applied to depth 2 (thorough 3)."""
    leaves = [
        ["TRUE"], ["FALSE"], ["UnitV"], ["UnitSum", 0, 3], ["UnitSum", 2, 3], ["UnitSum", 4, 5],
        ["IntV", 3, 5], ["IntV", 0, 0], ["IntV", -1, 6], ["FloatV", 1.5], ["FloatV", 0.0], ["StringV", ""], ["StringV", "hé✓"],
        ["ExtV", "MyConst", ["Opaque", "ext.x", "Tc", C, []], {"a": [1, None]}, ["ext.x"]],
        ["ExtV", "Lin", ["Opaque", "ext.x", "Tl", A, [["TA", QB]]], 7, []],
        ["FuncV", "id"], ["FuncV", "notq"], ["FuncV", "fdef"], ["FuncV", "empty"], ["FuncV", "looproot"], ["FuncV", "idreq"],
        ["ExtV", " Padded Name ", ["Opaque", "ext.x", "Tc", C, []], " payload\n", ["ext.x"]],
        ["ExtV", "NullPayload", ["Opaque", "ext.x", "Tc", C, []], None, []],
        ["StringV", "  padded\n"],
    ]
    for w in range(0, 7):
        leaves.append(["IntV", 1, w])
    reps = [["TRUE"], ["IntV", 3, 5], ["UnitSum", 2, 3], ["FuncV", "id"], ["StringV", "hé✓"]]
    type_rows = [[], [BOOL], [QB, INT5]]

    def level(elems, maxlen):
        lists = [[]]
        for n in range(1, maxlen + 1):
            lists += [list(c) for c in itertools.product(elems, repeat=n)]
        out = []
        for vs in lists:
            out.append(["TupleV", vs])
            out.append(["SomeV", vs])
            for r in type_rows:
                out.append(["LeftV", vs, r])
                out.append(["RightV", r, vs])
            # general Sum with explicit (consistent) type, value in each possible variant position
            row = [ref_value_type(x) for x in vs]
            out.append(["Sum", 0, ["Sum", [row]], vs])
            out.append(["Sum", 1, ["Sum", [[QB], row]], vs])
            out.append(["Sum", 2, ["Sum", [[], [BOOL], row]], vs])
            # homogeneous collections
            if vs and all(ref_value_type(x) == row[0] for x in vs):
                out.append(["ArrayV", vs, row[0]])
                out.append(["ListV", vs, row[0]])
                if T.ref_bound(row[0]) == C:
                    out.append(["SArrayV", vs, row[0], "arr"])
        for r in type_rows:
            out.append(["NoneV", r])
        out += [["ArrayV", [], BOOL], ["ListV", [], QB], ["SArrayV", [], INT5, ""], ["ListV", [], ["Tuple", [QB, BOOL]]]]
        return out

    l1 = level(reps, 2)

    def reps_of(vals, n):
        seen = {}
        for v in vals:
            key = (v[0], len(ref_value_fields(v)) if is_sum_value(v) else len(v[1]) if v[0] in ("ArrayV", "ListV", "SArrayV") else 0)
            seen.setdefault(key, v)
        return list(seen.values())[:n]

    big = tier in ("thorough", "deep", "xdeep")
    xd = tier == "xdeep"
    if xd:
        l1 = level([*reps, ["FloatV", 0.0], ["ExtV", "Lin", ["Opaque", "ext.x", "Tl", A, [["TA", QB]]], 7, []], ["UnitV"]], 3)
    l2 = level([["TRUE"], *reps_of(l1, 9 if not big else 30 if xd else 16)], 2 if big else 1)
    out = leaves + l1 + l2
    if big:
        l3 = level([["IntV", 1, 3], *reps_of(l2, 14 if tier == "thorough" else 40 if xd else 24)], 2)
        out += l3
        if tier in ("deep", "xdeep"):
            l4 = level([["FALSE"], *reps_of(l3, 12 if not xd else 30)], 1 if not xd else 2)
            out += l4
            if xd:
                out += level([["TRUE"], *reps_of(l4, 20)], 1)
    seen, res = set(), []
    for v in out:
        kx = repr(v)
        if kx not in seen:
            seen.add(kx)
            res.append(v)
    return res


# =============================================================================== ops
def G(i, o, r=()):
    return ["G", list(i), list(o), list(r)]


def ref_sig(op):
    """R3 - what the specification assigns to an operation.
    Returns dict(vin, vout, static_in, static_out, order_in, order_out, cf_in, cf_out, inner, num_out, nth)
    static_in = (offset, (kind, type-json)) ; static_out likewise for out port 0."""
    k = op[0]
    d = dict(vin=[], vout=[], static_in=None, static_out=None, order_in=False, order_out=False, cf_in=0, cf_out=0, inner=None,
             num_out=0, nth=None, dataflow=False)

    def df(vin, vout, order_in=True, order_out=True):
        d.update(vin=list(vin), vout=list(vout), order_in=order_in, order_out=order_out, num_out=len(vout), dataflow=True)

    if k in ("Module", "AliasDecl", "AliasDefn"):
        pass
    elif k == "Input":
        df([], op[1], order_in=False)
    elif k == "Output":
        df(op[1], [], order_out=False)
    elif k == "DFG":
        df(op[1], op[2])
        d["inner"] = (op[1], op[2])
    elif k == "CFG":
        df(op[1], op[2])
    elif k == "DataflowBlock":
        _, inputs, sum_rows, other, _delta = op
        d.update(cf_in=1, cf_out=len(sum_rows), num_out=len(sum_rows), inner=(inputs, [["Sum", sum_rows], *other]),
                 nth=[[*r, *other] for r in sum_rows])
    elif k == "ExitBlock":
        d.update(cf_in=1)
    elif k == "Conditional":
        _, sum_rows, other_in, outputs = op
        df([["Sum", sum_rows], *other_in], outputs)
        d["nth"] = [[*r, *other_in] for r in sum_rows]
    elif k == "Case":
        d["inner"] = (op[1], op[2])
    elif k == "TailLoop":
        _, ji, jo, rest, _delta = op
        df([*ji, *rest], [*jo, *rest])
        d["inner"] = ([*ji, *rest], [["Sum", [ji, jo]], *rest])
    elif k == "FuncDefn":
        _, name, params, i, o = op
        d.update(static_out=("function", ["Poly", params, G(i, o)]), num_out=1, inner=(i, o))
    elif k == "FuncDecl":
        d.update(static_out=("function", op[2]), num_out=1)
    elif k == "Const":
        d.update(static_out=("const", ref_value_type(op[1])), num_out=1)
    elif k == "LoadConst":
        df([], [op[1]])
        d["static_in"] = (0, ("const", op[1]))
    elif k == "Call":
        _, poly, inst, _args = op
        df(inst[1], inst[2])
        d["static_in"] = (len(inst[1]), ("function", poly))
    elif k == "LoadFunc":
        _, poly, inst, _args = op
        df([], [inst])
        d["static_in"] = (0, ("function", poly))
    elif k == "CallIndirect":
        g = op[1]
        df([g, *g[1]], g[2])
    elif k in ("Tag", "Some", "Left", "Right", "Continue", "Break"):
        tag, rows = tag_of(op)
        df(rows[tag], [["Sum", rows]])
    elif k == "Custom":
        df(op[3][1], op[3][2])
    elif k == "MakeTuple":
        df(op[1], [["Tuple", op[1]]])
    elif k == "UnpackTuple":
        df([["Tuple", op[1]]], op[1])
    elif k == "Noop":
        df([op[1]], [op[1]])
    elif k == "Not":
        df([BOOL], [BOOL])
    elif k == "DivMod":
        df([["int", op[1]]] * 2, [["int", op[1]]] * 2)
    else:
        raise AssertionError(op)
    return d


def tag_of(op):
    k = op[0]
    if k == "Tag":
        return op[1], op[2]
    if k == "Some":
        return 1, [[], op[1]]
    if k in ("Left", "Continue"):
        return 0, [op[1], op[2]]
    if k in ("Right", "Break"):
        return 1, [op[1], op[2]]
    raise AssertionError(op)


def _rows_json(rows):
    return [[ref_type_json(t) for t in r] for r in rows]


def _row_json(r):
    return [ref_type_json(t) for t in r]


def ref_op_json(op, parent=0):
    """The serialized operation per the published schema."""
    k = op[0]
    b = {"parent": parent}
    if k == "Module":
        return {**b, "op": "Module"}
    if k == "Input":
        return {**b, "op": "Input", "types": _row_json(op[1])}
    if k == "Output":
        return {**b, "op": "Output", "types": _row_json(op[1])}
    if k == "DFG":
        return {**b, "op": "DFG", "signature": ref_type_json(G(op[1], op[2], op[3]))}
    if k == "CFG":
        return {**b, "op": "CFG", "signature": ref_type_json(G(op[1], op[2]))}
    if k == "DataflowBlock":
        return {**b, "op": "DataflowBlock", "inputs": _row_json(op[1]), "other_outputs": _row_json(op[3]),
                "sum_rows": _rows_json(op[2]), "extension_delta": list(op[4])}
    if k == "ExitBlock":
        return {**b, "op": "ExitBlock", "cfg_outputs": _row_json(op[1])}
    if k == "Conditional":
        return {**b, "op": "Conditional", "other_inputs": _row_json(op[2]), "outputs": _row_json(op[3]),
                "sum_rows": _rows_json(op[1]), "extension_delta": []}
    if k == "Case":
        return {**b, "op": "Case", "signature": ref_type_json(G(op[1], op[2]))}
    if k == "TailLoop":
        return {**b, "op": "TailLoop", "just_inputs": _row_json(op[1]), "just_outputs": _row_json(op[2]),
                "rest": _row_json(op[3]), "extension_delta": list(op[4])}
    if k == "FuncDefn":
        return {**b, "op": "FuncDefn", "name": op[1], "signature": ref_type_json(["Poly", op[2], G(op[3], op[4])])}
    if k == "FuncDecl":
        return {**b, "op": "FuncDecl", "name": op[1], "signature": ref_type_json(op[2])}
    if k == "Const":
        return {**b, "op": "Const", "v": ref_value_json(op[1])}
    if k == "LoadConst":
        return {**b, "op": "LoadConstant", "datatype": ref_type_json(op[1])}
    if k in ("Call", "LoadFunc"):
        return {**b, "op": "Call" if k == "Call" else "LoadFunction", "func_sig": ref_type_json(op[1]),
                "type_args": [T.ref_arg_json(a) for a in op[3]], "instantiation": ref_type_json(op[2])}
    if k == "CallIndirect":
        return {**b, "op": "CallIndirect", "signature": ref_type_json(op[1])}
    if k in ("Tag", "Some", "Left", "Right", "Continue", "Break"):
        tag, rows = tag_of(op)
        return {**b, "op": "Tag", "tag": tag, "variants": _rows_json(rows)}
    if k == "Custom":
        return {**b, "op": "Extension", "extension": op[1], "name": op[2], "signature": ref_type_json(op[3]),
                "description": op[4], "args": [T.ref_arg_json(a) for a in op[5]]}
    if k in ("MakeTuple", "UnpackTuple"):
        s = ref_sig(op)
        return {**b, "op": "Extension", "extension": "prelude", "name": k, "signature": ref_type_json(G(s["vin"], s["vout"], ["prelude"])),
                "description": "", "args": [T.ref_arg_json(["SeqA", [["TA", t] for t in op[1]]])]}
    if k == "Noop":
        return {**b, "op": "Extension", "extension": "prelude", "name": "Noop", "signature": ref_type_json(G([op[1]], [op[1]], ["prelude"])),
                "description": "", "args": [T.ref_arg_json(["TA", op[1]])]}
    if k == "Not":
        return {**b, "op": "Extension", "extension": "logic", "name": "Not", "signature": ref_type_json(G([BOOL], [BOOL], ["logic"])),
                "description": "", "args": []}
    if k == "DivMod":
        it = ["int", op[1]]
        return {**b, "op": "Extension", "extension": "arithmetic.int", "name": "idivmod_u",
                "signature": ref_type_json(G([it, it], [it, it], ["arithmetic.int"])), "description": "", "args": [T.ref_arg_json(["NA", op[1]])]}
    if k == "AliasDecl":
        return {**b, "op": "AliasDecl", "name": op[1], "bound": op[2]}
    if k == "AliasDefn":
        return {**b, "op": "AliasDefn", "name": op[1], "definition": ref_type_json(op[2])}
    raise AssertionError(op)


def build_op(op):
    from hugr import ops, tys
    from hugr.tys import TypeBound

    bt = T.build_type
    row = lambda r: [bt(t) for t in r]  # noqa: E731
    k = op[0]
    if k == "Module":
        return ops.Module()
    if k == "Input":
        return ops.Input(row(op[1]))
    if k == "Output":
        return ops.Output(row(op[1]))
    if k == "DFG":
        return ops.DFG(row(op[1]), row(op[2]), list(op[3]))
    if k == "CFG":
        return ops.CFG(row(op[1]), row(op[2]))
    if k == "DataflowBlock":
        return ops.DataflowBlock(row(op[1]), tys.Sum([row(r) for r in op[2]]), row(op[3]), list(op[4]))
    if k == "ExitBlock":
        return ops.ExitBlock(row(op[1]))
    if k == "Conditional":
        return ops.Conditional(tys.Sum([row(r) for r in op[1]]), row(op[2]), row(op[3]))
    if k == "Case":
        return ops.Case(row(op[1]), row(op[2]))
    if k == "TailLoop":
        return ops.TailLoop(row(op[1]), row(op[3]), row(op[2]), list(op[4]))
    if k == "FuncDefn":
        return ops.FuncDefn(op[1], row(op[3]), [T.build_param(p) for p in op[2]], row(op[4]))
    if k == "FuncDecl":
        return ops.FuncDecl(op[1], bt(op[2]))
    if k == "Const":
        return ops.Const(build_value(op[1]))
    if k == "LoadConst":
        return ops.LoadConst(bt(op[1]))
    if k == "Call":
        return ops.Call(bt(op[1]), bt(op[2]), [T.build_arg(a) for a in op[3]])
    if k == "LoadFunc":
        return ops.LoadFunc(bt(op[1]), bt(op[2]), [T.build_arg(a) for a in op[3]])
    if k == "CallIndirect":
        return ops.CallIndirect(bt(op[1]))
    if k == "Tag":
        return ops.Tag(op[1], tys.Sum([row(r) for r in op[2]]))
    if k == "Some":
        return ops.Some(*row(op[1]))
    if k == "Left":
        return ops.Left(tys.Either(row(op[1]), row(op[2])))
    if k == "Right":
        return ops.Right(tys.Either(row(op[1]), row(op[2])))
    if k == "Continue":
        return ops.Continue(tys.Either(row(op[1]), row(op[2])))
    if k == "Break":
        return ops.Break(tys.Either(row(op[1]), row(op[2])))
    if k == "Custom":
        return ops.Custom(op[2], bt(op[3]), op[4], op[1], [T.build_arg(a) for a in op[5]])
    if k == "MakeTuple":
        return ops.MakeTuple(row(op[1]))
    if k == "UnpackTuple":
        return ops.UnpackTuple(row(op[1]))
    if k == "Noop":
        return ops.Noop(bt(op[1]))
    if k == "Not":
        from hugr.std.logic import Not

        return Not
    if k == "DivMod":
        from hugr.std.int import _DivModDef

        return _DivModDef(op[1])
    if k == "AliasDecl":
        return ops.AliasDecl(op[1], {"C": TypeBound.Copyable, "A": TypeBound.Any}[op[2]])
    if k == "AliasDefn":
        return ops.AliasDefn(op[1], bt(op[2]))
    raise AssertionError(op)


FN = G([QB], [BOOL])
ELEMS = [BOOL, QB, INT5, ["Tuple", [BOOL, QB]], FN]


def op_specs(tier):
    """Every op class over all rows of the row alphabet (length <= 2, thorough 3 over a smaller
    element set), all tags/variants, optional attributes set to non-default values."""
    rows = T.rows_over(ELEMS, 2)
    if tier == "xdeep":
        rows += [list(c) for c in itertools.product([BOOL, QB, FN], repeat=4)]
    if tier in ("thorough", "deep", "xdeep"):
        rows += [list(c) for c in itertools.product(ELEMS, repeat=3)]
    small = T.rows_over([BOOL, QB], 2)  # 7 rows
    if tier == "xdeep":
        small = small + [[INT5], [FN, QB], [QB, QB, BOOL]]
    tiny = [[], [BOOL], [QB, BOOL]]
    variant_lists = [[]] + [[r] for r in small] + [[a, b] for a in small for b in small]
    if tier in ("thorough", "deep", "xdeep"):
        variant_lists += [[a, b, c] for a in tiny for b in tiny for c in tiny]
    if tier in ("deep", "xdeep"):
        variant_lists += [[a, b, c] for a in small for b in small[:4] for c in small[:3]]
    if tier == "xdeep":
        variant_lists += [[a, b, c] for a in small for b in small for c in small]
        variant_lists += [[a, b, c, d] for a in tiny for b in tiny for c in tiny for d in tiny]
    deltas = [[], ["ext.x", "prelude"]]
    out = [["Module"]]
    for r in rows:
        out += [["Input", r], ["Output", r], ["ExitBlock", r], ["MakeTuple", r], ["UnpackTuple", r], ["Some", r]]
    for i in rows:
        for o in small:
            for d in deltas:
                out.append(["DFG", i, o, d])
            out += [["CFG", i, o], ["Case", i, o], ["CallIndirect", G(i, o)], ["CallIndirect", G(o, i, ["r"])]]
            out.append(["FuncDefn", "f", [], i, o])
            out.append(["FuncDecl", "d", ["Poly", [], G(i, o)]])
            out.append(["Call", ["Poly", [], G(i, o)], G(i, o), []])
            out.append(["Call", ["Poly", [], G(o, i)], G(o, i), []])
            out.append(["LoadFunc", ["Poly", [], G(i, o)], G(i, o), []])
            out.append(["Custom", "ext.x", "op", G(i, o, ["ext.x"]), "a description", [["NA", 3], ["TA", QB]]])
    for vl in variant_lists:
        for other in tiny + [[INT5, FN]]:
            for o in tiny:
                out.append(["Conditional", vl, other, o])
            for inp in tiny:
                for d in deltas[: 2 if inp == [] else 1]:
                    out.append(["DataflowBlock", inp, vl, other, d])
        for tag in range(len(vl)):
            out.append(["Tag", tag, vl])
    for l in small:
        for r in small:
            out += [["Left", l, r], ["Right", l, r], ["Continue", l, r], ["Break", l, r]]
            for rest in tiny + [[INT5, FN]]:
                for d in deltas[: 2 if rest == [] else 1]:
                    out.append(["TailLoop", l, r, rest, d])
    # polymorphic and row-polymorphic functions: instantiation may change arity
    tp = [["TP", C]], [["TP", A], ["NP", 7]], [["LP", ["TP", A]]]
    poly_id = ["Poly", [["TP", C]], G([["V", 0, C]], [["V", 0, C]])]
    poly2 = ["Poly", [["TP", A], ["NP", 7]], G([["V", 0, A], ["int", 3]], [["V", 0, A]])]
    rowp = ["Poly", [["LP", ["TP", A]]], G([["R", 0, A]], [BOOL, ["R", 0, A]])]
    out.append(["FuncDecl", " padded name\t", poly_id])
    out.append(["FuncDecl", "unbounded", ["Poly", [["NP", None], ["LP", ["NP", None]]], G([], [])]])
    out.append(["FuncDefn", "  f ", [["NP", None]], [], []])
    out.append(["AliasDecl", " al ", C])
    out.append(["AliasDefn", "al\n", BOOL])
    out.append(["Custom", " ext.pad ", " op ", G([BOOL], []), "line one\nline two\n ", [["SA", "  padded label\n"], ["VA", 0, ["NP", None]]]])
    out.append(["Call", ["Poly", [["NP", None]], G([], [])], G([], []), [["NA", 4]]])
    out.append(["FuncDecl", "pid", poly_id])
    out.append(["FuncDecl", "rowp", rowp])
    out.append(["FuncDefn", "pdef", [["TP", C]], [["V", 0, C]], [["V", 0, C], ["V", 0, C]]])
    out.append(["FuncDefn", "pdef2", [["TP", A], ["NP", 7]], [["V", 0, A]], [["V", 0, A]]])
    for t in [BOOL, INT5, FN]:
        for kind in ("Call", "LoadFunc"):
            out.append([kind, poly_id, G([t], [t]), [["TA", t]]])
    for kind in ("Call", "LoadFunc"):
        out.append([kind, poly2, G([QB, ["int", 3]], [QB]), [["TA", QB], ["NA", 3]]])
        for r in tiny + [[QB, QB, BOOL]]:
            out.append([kind, rowp, G(r, [BOOL, *r]), [["SeqA", [["TA", t] for t in r]]]])
    for t in T.leaf_types()[:14] + [FN, ["Tuple", [BOOL, QB]]]:
        if t[0] != "R":
            out += [["Noop", t], ["LoadConst", t], ["AliasDefn", "al", t]]
    out += [["Not"], ["AliasDecl", "a", C], ["AliasDecl", "b", A]]
    out += [["DivMod", w] for w in range(0, 7)]
    for a in T.arg_specs():
        out.append(["Custom", "e", "with_arg", G([BOOL], []), "", [a]])
    for v in value_specs("quick" if tier == "quick" else "thorough")[: 60 if tier == "quick" else (400 if tier == "thorough" else 2000 if tier == "deep" else 100000)]:
        out.append(["Const", v])
    seen, res = set(), []
    for o in out:
        kx = repr(o)
        if kx not in seen:
            seen.add(kx)
            res.append(o)
    return res
