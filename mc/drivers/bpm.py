"""E2 - builder-program machine.

A *program* is a JSON-able list of builder calls.  `run(scenario, program)` executes it on
fresh hugr-py builders while the harness keeps, independently of hugr-py, an abstract typing
context (frames, wires with reference type specs, linearity, consumption).  `enabled(ctx)`
lists exactly the well-formed next calls within the scenario's alphabet, so a *complete*
program (all frames closed) is a well-formed builder program by construction.

Calls
  ["op", name, [wire ids]]          dataflow op via add_op / add / extend (rotating)
  ["load", valname]                 DfBase.load(value)
  ["order", i, j]                   add_state_order between sibling nodes i < j of the frame
  ["nested", [wire ids]]            add_nested(...)         -> opens a DFG frame
  ["cond", w, [wire ids]]           add_conditional(...)    -> opens case 0 (then 1, ...)
  ["if", w, [wire ids]]             add_if(...) / add_else  -> opens the if frame, then else
  ["loop", [ji], [rest]]            add_tail_loop(...)      -> opens the loop body
  ["cfg", [wire ids]]               add_cfg(...)            -> opens the entry block
  ["close", [wire ids]]             set_outputs(...) of the innermost DFG/case/function frame
  ["close_loop", variant, [vals], [rest]]   Tag + set_loop_outputs
  ["close_block", mode, [wire ids]] block outputs + branching (see _close_block)
  ["def", name, row, declared] / ["call", f, [wire ids]] / ["loadfn", f] / ["callind", w, [wire ids]]
Wire ids are assigned in creation order, so a program is self-contained and replayable."""

from __future__ import annotations

import itertools
from dataclasses import dataclass, field

from mc.drivers import terms as T
from mc.drivers.terms import BOOL, INT5, QB

B, Q, I = BOOL, QB, INT5
TUP_BQ = ["Tuple", [B, Q]]


def lin(t) -> bool:
    return T.ref_bound(t) == T.A


VALUES = {
    "U3": (["UnitSum", 1, 3], ["Unit", 3]),
    "TRUE": (["TRUE"], B),
    "INT": (["IntV", 3, 5], I),
    "TUP": (["TupleV", [["TRUE"], ["IntV", 1, 5]]], ["Tuple", [B, I]]),
    "UNIT": (["UnitV"], T.UNIT),
}


@dataclass
class W:
    id: int
    ty: list
    frame: int  # index of the owning frame in ctx.frames at creation (depth)
    frame_uid: int
    h: object  # hugr wire (OutPort)
    node: object
    used: bool = False


@dataclass
class Frame:
    uid: int
    kind: str  # dfg | func | case | loop | block
    b: object  # hugr builder
    wires: list = field(default_factory=list)
    nodes: list = field(default_factory=list)  # sibling nodes in creation order (handles)
    info: dict = field(default_factory=dict)
    barrier: bool = False  # value wires from outside are not visible (function body)


class Ctx:
    def __init__(self):
        self.frames: list[Frame] = []
        self.wires: dict[int, W] = {}
        self.next_wire = 0
        self.next_uid = 0
        self.root = None  # root builder
        self.hugr = None
        self.funcs: list = []  # (name, node, in row, out row|None, builder)
        self.calls = 0
        self.handles: list = []  # (label, handle, expected outputs) for the C16 monitor
        self.closed_blocks: list = []
        self.consts: list = []  # {"node", "ty", "scope": frame uid | None (root)}
        self.dead: list = []  # copyable wires of closed frames: (W, kind of the closed frame)
        self.cfgs: list = []
        self.features: set = set()

    def new_wire(self, ty, h, node, frame_idx=None):
        fi = len(self.frames) - 1 if frame_idx is None else frame_idx
        w = W(self.next_wire, ty, fi, self.frames[fi].uid, h, node)
        self.next_wire += 1
        self.wires[w.id] = w
        self.frames[fi].wires.append(w.id)
        return w

    def push(self, kind, b, in_types, barrier=False, **info):
        f = Frame(self.next_uid, kind, b, info=info, barrier=barrier)
        self.next_uid += 1
        self.frames.append(f)
        f.nodes.append(b.input_node)
        for i, t in enumerate(in_types):
            self.new_wire(t, b.input_node.out(i), b.input_node)
        return f

    @property
    def top(self) -> Frame:
        return self.frames[-1]

    def visible(self):
        """Wires usable as arguments in the current frame: own wires, plus copyable wires of the
        enclosing frames up to (excluding) a function boundary; inside a basic block also the
        copyable wires of blocks known to dominate it."""
        out = []
        top = self.top
        for wid in top.wires:
            w = self.wires[wid]
            if not (lin(w.ty) and w.used):
                out.append(w)
        if top.barrier:
            return out
        for fi in range(len(self.frames) - 2, -1, -1):
            f = self.frames[fi]
            if f.kind == "cfgholder":
                if f.barrier:
                    break
                continue
            for wid in f.wires:
                w = self.wires[wid]
                if not lin(w.ty):
                    out.append(w)
            if f.barrier:
                break
        for w in top.info.get("dom_wires", []):
            out.append(w)
        return out


# ------------------------------------------------------------------------------ harness extension
QEXT_NAME = "bpm.quantum"
QEXT_OPS = {"H": ([Q], [Q]), "CX": ([Q, Q], [Q, Q]), "Measure": ([Q], [Q, B]), "CFlip": ([B, Q], [B, Q])}
_QEXT = None


def qext():
    """A small user extension with linear and mixed-type operations (hugr-py side), registered with
    the reference validator through a hand-written document."""
    global _QEXT
    if _QEXT is None:
        from hugr import ext, tys
        from mc.ref import hugrjson

        e = ext.Extension(QEXT_NAME, ext.Version(0, 1, 0))
        doc = {"version": "0.1.0", "name": QEXT_NAME, "runtime_reqs": [], "types": {}, "values": {}, "operations": {}}
        for name, (i, o) in QEXT_OPS.items():
            e.add_op_def(ext.OpDef(name, ext.OpDefSig(tys.FunctionType([T.build_type(t) for t in i], [T.build_type(t) for t in o])), f"{name} gate"))
            doc["operations"][name] = {"extension": QEXT_NAME, "name": name, "description": f"{name} gate", "binary": False,
                                       "signature": {"params": [], "body": {"input": [T.ref_type_json(t) for t in i], "output": [T.ref_type_json(t) for t in o], "runtime_reqs": []}}}
        hugrjson.register_extension(doc)
        _QEXT = e
    return _QEXT


# ------------------------------------------------------------------------------ op table
def op_result(name, arg_tys, param=None):
    """Reference typing of the op alphabet: result row or None if ill-typed."""
    if name == "Not":
        return [B] if arg_tys == [B] else None
    if name == "Noop":
        return list(arg_tys) if len(arg_tys) == 1 else None
    if name == "MakeTuple":
        return [["Tuple", list(arg_tys)]]
    if name == "UnpackTuple":
        if len(arg_tys) == 1 and arg_tys[0][0] == "Tuple":
            return list(arg_tys[0][1])
        return None
    if name == "DivMod":
        return [I, I] if arg_tys == [I, I] else None
    if name == "Tag":
        tag, rows = param
        return [["Sum", rows]] if arg_tys == rows[tag] else None
    if name in QEXT_OPS:
        i, o = QEXT_OPS[name]
        return list(o) if arg_tys == i else None
    raise AssertionError(name)


def build_op(name, param=None):
    from hugr import ops, tys
    from hugr.std.int import DivMod
    from hugr.std.logic import Not

    if name == "Not":
        return Not
    if name == "Noop":
        return ops.Noop()
    if name == "MakeTuple":
        return ops.MakeTuple()
    if name == "UnpackTuple":
        return ops.UnpackTuple()
    if name == "DivMod":
        return DivMod
    if name == "Tag":
        tag, rows = param
        return ops.Tag(tag, tys.Sum([[T.build_type(t) for t in r] for r in rows]))
    if name in QEXT_OPS:
        return ops.ExtOp(qext().operations[name])
    raise AssertionError(name)


# ------------------------------------------------------------------------------ fragments for insert_*
def _frag_dfg():
    from hugr import tys
    from hugr.build.dfg import Dfg
    from hugr.std.logic import Not

    d = Dfg(tys.Bool)
    n = d.add(Not(d.inputs()[0]), metadata={"frag": 1})
    d.add_state_order(d.input_node, n)
    with d.add_nested() as inner:
        x = inner.add(Not(n))  # non-local wire: needs the order edge n -> inner DFG
        inner.set_outputs(x)
    d.set_outputs(n, *inner)
    return d


def _frag_cfg():
    from hugr import tys
    from hugr.build.cfg import Cfg

    c = Cfg(tys.Bool)
    with c.add_entry() as e:
        e.set_block_outputs(e.inputs()[0], e.inputs()[0])
    with c.add_successor(e[0]) as s:
        s.set_single_succ_outputs(*s.inputs())
    c.branch_exit(s[0])
    c.branch_exit(e[1])
    return c


def _frag_cond():
    from hugr import tys
    from hugr.build.cond_loop import Conditional

    c = Conditional(tys.Bool, [tys.Bool])
    for i in range(2):
        with c.add_case(i) as cs:
            cs.set_outputs(*cs.inputs(), *cs.inputs())
    return c


def _frag_loop():
    from hugr import ops, tys
    from hugr.build.cond_loop import TailLoop

    t = TailLoop([tys.Bool], [tys.Bool])
    a, b = t.inputs()
    tag = t.add_op(ops.Break(tys.Either([tys.Bool], [tys.Bool, tys.Bool])), a, b)
    t.set_loop_outputs(tag, b)
    return t


#: name -> (thunk, wanted wire types, output types, builder method)
FRAGMENTS = {
    "dfg": (_frag_dfg, [BOOL], [BOOL, BOOL], "insert_nested"),
    "cfg": (_frag_cfg, [BOOL], [BOOL], "insert_cfg"),
    "cond": (_frag_cond, [BOOL, BOOL], [BOOL, BOOL], "insert_conditional"),
    "loop": (_frag_loop, [BOOL, BOOL], [BOOL, BOOL, BOOL], "insert_tail_loop"),
}


# ------------------------------------------------------------------------------ scenarios
@dataclass
class Scenario:
    name: str
    root: str  # dfg | module | cfg | cond | loop | tracked
    row: list
    ops: tuple = ("Not", "Noop", "MakeTuple", "UnpackTuple")
    loads: tuple = ()
    containers: tuple = ()  # nested, cond, if, loop, cfg
    orders: bool = False
    max_depth: int = 2  # nesting depth of open frames
    max_args: int = 2
    tags: tuple = ()  # (tag, rows) parameters for the Tag op
    funcs: tuple = ()  # module scenarios: function prototypes
    extra: dict = field(default_factory=dict)


def start(sc: Scenario) -> Ctx:
    from hugr.build.dfg import Dfg
    from hugr.build.function import Module

    ctx = Ctx()
    ctx.sc = sc
    if any(o in QEXT_OPS for o in sc.ops):
        qext()
    if sc.root == "dfg":
        d = Dfg(*[T.build_type(t) for t in sc.row])
        ctx.root, ctx.hugr = d, d.hugr
        ctx.push("dfg", d, sc.row, is_root=True)
    elif sc.root == "tracked":
        from hugr.build.tracked_dfg import TrackedDfg

        if sc.extra.get("track_later"):
            # the other public way to the same state: build untracked, then track the inputs explicitly
            d = TrackedDfg(*[T.build_type(t) for t in sc.row])
            d.track_inputs()
        else:
            d = TrackedDfg(*[T.build_type(t) for t in sc.row], track_inputs=True)
        ctx.root, ctx.hugr = d, d.hugr
        f = ctx.push("dfg", d, sc.row, is_root=True)
        f.info["tracked"] = list(f.wires)
    elif sc.root == "module":
        m = Module()
        ctx.root, ctx.hugr = m, m.hugr
    elif sc.root == "cfg":
        from hugr.build.cfg import Cfg

        cb = Cfg(*[T.build_type(t) for t in sc.row])
        ctx.root, ctx.hugr = cb, cb.hugr
        cfg = {"b": cb, "n_blocks": 1, "exit_row": None, "entry_in": list(sc.row), "pending": [], "entry_wires": None, "holder_depth": 0, "is_root": True}
        ctx.cfgs.append(cfg)
        holder = Frame(ctx.next_uid, "cfgholder", cb, info={"cfg": cfg}, barrier=True)
        ctx.next_uid += 1
        ctx.frames.append(holder)
        ctx.push("block", cb.add_entry(), list(sc.row), cfg=cfg, is_entry=True)
    elif sc.root == "cond":
        from hugr.build.cond_loop import Conditional

        rows = sc.extra["sum_rows"]
        other = list(sc.row)
        cb = Conditional(T.build_type(["Sum", rows]), [T.build_type(t) for t in other])
        ctx.root, ctx.hugr = cb, cb.hugr
        ctx.push("case", cb.add_case(0), [*rows[0], *other], cond=cb, case_idx=0, rows=rows, other=other, want=None, style="cond", root_cond=True)
    elif sc.root == "loop":
        from hugr.build.cond_loop import TailLoop

        ji, rest = sc.extra["ji"], list(sc.row)
        lb = TailLoop([T.build_type(t) for t in ji], [T.build_type(t) for t in rest])
        ctx.root, ctx.hugr = lb, lb.hugr
        ctx.push("loop", lb, [*ji, *rest], ji=ji, rest=rest, jo_options=sc.extra.get("jo_options", [[], [B]]), is_root=True)
    elif sc.root == "func":
        from hugr.build.dfg import Function

        f = Function("main", [T.build_type(t) for t in sc.row])
        ctx.root, ctx.hugr = f, f.hugr
        ctx.funcs.append({"name": "main", "node": f.parent_node, "in": list(sc.row), "out": None, "b": f, "open": True, "params": [], "insts": []})
        ctx.push("func", f, list(sc.row), barrier=True, want=None, fidx=0)
    else:
        raise AssertionError(sc.root)
    return ctx


def _args_choices(ctx: Ctx, want: list | None, k: int):
    """Tuples of k distinct-or-repeated visible wires; a linear wire at most once per tuple.
    `want` (list of types) restricts positions to exact types."""
    vis = ctx.visible()
    pools = []
    for i in range(k):
        if want is not None:
            pools.append([w for w in vis if w.ty == want[i]])
        else:
            pools.append(vis)
    for combo in itertools.product(*pools):
        ids = [w.id for w in combo]
        if any(lin(w.ty) and ids.count(w.id) > 1 for w in combo):
            continue
        yield combo


def enabled(ctx: Ctx) -> list:
    sc = ctx.sc
    calls = []
    if not ctx.frames:
        # module level
        for d in sc.extra.get("decls", ()):
            if not any(f["name"] == d[0] for f in ctx.funcs):
                return [["decl", d[0]]]
        for fdef in sc.funcs:
            name, row, declared = fdef[0], fdef[1], fdef[2]
            if not any(f["name"] == name for f in ctx.funcs):
                calls.append(["def", name, row, declared] + ([fdef[3]] if len(fdef) > 3 else []))
                break  # functions are defined in the listed order
        return calls
    top = ctx.top
    depth = len(ctx.frames)
    # late declarations: made (forced step) once the body of the last listed function is open, so that the
    # declaration comes *after* its caller in the module's child order (a forward reference for every consumer)
    if top.kind == "func" and depth == 1 and len([f for f in ctx.funcs if f.get("b") is not None]) == len(sc.funcs):
        for d in sc.extra.get("late_decls", ()):
            if not any(f["name"] == d[0] for f in ctx.funcs):
                return [["decl", d[0]]]
    if top.kind in ("dfg", "func", "case", "loop", "block"):
        for name in sc.ops:
            if name in ("Not",):
                for c in _args_choices(ctx, [B], 1):
                    calls.append(["op", name, [w.id for w in c]])
            elif name == "Noop":
                for c in _args_choices(ctx, None, 1):
                    calls.append(["op", name, [w.id for w in c]])
            elif name == "MakeTuple":
                for k in range(0, sc.max_args + 1):
                    for c in _args_choices(ctx, None, k):
                        calls.append(["op", name, [w.id for w in c]])
            elif name == "UnpackTuple":
                for c in _args_choices(ctx, None, 1):
                    if c[0].ty[0] == "Tuple":
                        calls.append(["op", name, [c[0].id]])
            elif name == "DivMod":
                for c in _args_choices(ctx, [I, I], 2):
                    calls.append(["op", name, [w.id for w in c]])
            elif name in QEXT_OPS:
                want = QEXT_OPS[name][0]
                for c in _args_choices(ctx, want, len(want)):
                    calls.append(["op", name, [w.id for w in c]])
        for ti, (tag, rows) in enumerate(sc.tags):
            for c in _args_choices(ctx, rows[tag], len(rows[tag])):
                calls.append(["op", "Tag", [w.id for w in c], ti])
        for v in sc.loads:
            calls.append(["load", v])
        if sc.orders:
            n = len(top.nodes)
            lo = max(0, n - 3)
            for i in range(lo, n):
                for j in range(i + 1, n):
                    if (i, j) not in top.info.setdefault("orders", set()):
                        calls.append(["order", i, j])
            if n >= 2 and ("out", n - 1) not in top.info.setdefault("orders", set()):
                calls.append(["order", n - 1, "out"])
        if depth < sc.max_depth:
            if "nested" in sc.containers:
                for k in range(0, sc.max_args + 1):
                    for c in _args_choices(ctx, None, k):
                        calls.append(["nested", [w.id for w in c]])
            if "cond" in sc.containers or "if" in sc.containers:
                vis = ctx.visible()
                for cw in vis:
                    if not T.is_sum(cw.ty):
                        continue
                    nvar = len(T.ref_rows(cw.ty))
                    for k in range(0, min(sc.max_args, 1) + 1):
                        for c in _args_choices(ctx, None, k):
                            if any(w.id == cw.id and lin(cw.ty) for w in c):
                                continue
                            if "cond" in sc.containers and nvar >= 1:
                                calls.append(["cond", cw.id, [w.id for w in c]])
                            if "if" in sc.containers and cw.ty == B:
                                calls.append(["if", cw.id, [w.id for w in c]])
            if "loop" in sc.containers:
                for kj in range(0, 2):
                    for kr in range(0, 2):
                        for c in _args_choices(ctx, None, kj + kr):
                            calls.append(["loop", [w.id for w in c[:kj]], [w.id for w in c[kj:]]])
            if "cfg" in sc.containers:
                for k in range(0, sc.max_args + 1):
                    for c in _args_choices(ctx, None, k):
                        calls.append(["cfg", [w.id for w in c]])
        stack_uids = {f.uid for f in ctx.frames}
        # constants as separate nodes (here or at the root), loaded any number of times
        if sc.extra.get("const_ops"):
            if len(ctx.consts) < sc.extra.get("max_consts", 2):
                for v in sc.loads:
                    calls.append(["const", v, "here"])
                    calls.append(["const", v, "root"])
            for ci, c in enumerate(ctx.consts):
                if c["scope"] is None or c["scope"] in stack_uids:
                    calls.append(["loadc", ci])
        # pre-built fragments inserted with wires
        for fname in sc.extra.get("inserts", ()):
            want = FRAGMENTS[fname][1]
            for c in _args_choices(ctx, want, len(want)):
                calls.append(["insert", fname, [w.id for w in c]])
        # a function defined inside this dataflow region
        for ld in sc.extra.get("local_defs", ()):
            if not any(f["name"] == ld[0] for f in ctx.funcs) and depth < sc.max_depth:
                calls.append(["ldef", ld[0], ld[1], ld[2]])
        # index-based commands of the tracked builder
        if top.info.get("tracked") is not None:
            tr = top.info["tracked"]
            live = [i for i, wid in enumerate(tr) if wid is not None]
            for name in sc.ops:
                if name in ("Not", "Noop"):
                    for i in live:
                        if name == "Noop" or ctx.wires[tr[i]].ty == B:
                            calls.append(["iop", name, [i]])
                elif name in QEXT_OPS:
                    want = QEXT_OPS[name][0]
                    pools = [[i for i in live if ctx.wires[tr[i]].ty == t] for t in want]
                    for combo in itertools.product(*pools):
                        if len(set(combo)) == len(combo):
                            calls.append(["iop", name, list(combo)])
                    if len(want) == 2:  # a wire before an index
                        for w in ctx.visible():
                            if w.ty == want[0] and w.frame_uid == top.uid and w.id not in tr and not (lin(w.ty) and w.used):
                                for i in pools[1]:
                                    calls.append(["iop", name, [["w", w.id], i]])
                elif name == "DivMod":
                    ints = [i for i in live if ctx.wires[tr[i]].ty == I]
                    for i, j in itertools.product(ints, repeat=2):
                        calls.append(["iop", name, [i, j]])
                    for w in ctx.visible():
                        if w.ty == I and w.frame_uid == top.uid:
                            for i in ints:
                                calls.append(["iop", name, [["w", w.id], i]])  # a wire before an index
            for i in live:
                calls.append(["untrack", i])
            for w in ctx.visible():
                if w.id not in tr and w.frame_uid == top.uid:
                    calls.append(["track", w.id])
        # function calls (module scenarios)
        if ctx.funcs and "call" in sc.extra.get("fn_ops", ()):
            for fi, f in enumerate(ctx.funcs):
                if f["out"] is None:
                    continue  # outputs unknown: cannot be called yet
                if f.get("scope") is not None and f["scope"] not in stack_uids:
                    continue  # a locally defined function is only visible below its defining region
                for ii, (targs, irow, orow) in enumerate(f["insts"]):
                    for c in _args_choices(ctx, irow, len(irow)):
                        calls.append(["call", fi, [w.id for w in c], ii])
                    if "loadfn" in sc.extra.get("fn_ops", ()):
                        calls.append(["loadfn", fi, ii])
            if "callind" in sc.extra.get("fn_ops", ()):
                for w in ctx.visible():
                    if w.ty[0] == "G":
                        for c in _args_choices(ctx, w.ty[1], len(w.ty[1])):
                            calls.append(["callind", w.id, [x.id for x in c]])
        calls += close_choices(ctx)
        tr = top.info.get("tracked")
        if tr is not None:
            # a linear wire that is currently tracked may only be consumed through its index
            held = {w for w in tr if w is not None and lin(ctx.wires[w].ty)}
            calls = [c for c in calls if not (c[0] in ("op", "nested", "cond", "if", "loop", "cfg", "close") and any(i in held for i in _flat_ids(c)))]
    return calls


def _flat_ids(call):
    out = []
    for x in call[1:]:
        if isinstance(x, int):
            out.append(x)
        elif isinstance(x, list):
            out += [y for y in x if isinstance(y, int)]
    return out


def _must_consume(ctx: Ctx):
    return [ctx.wires[i] for i in ctx.top.wires if lin(ctx.wires[i].ty) and not ctx.wires[i].used]


def _rows_with(ctx: Ctx, want: list | None, maxlen: int):
    """Candidate output rows: every tuple (len<=maxlen, or exactly matching `want`) of visible wires
    that contains every unconsumed linear wire of the frame exactly once."""
    must = _must_consume(ctx)
    own = set(ctx.top.wires)
    if want is not None:
        for c in _args_choices(ctx, want, len(want)):
            ids = [w.id for w in c]
            if all(m.id in ids for m in must) and all((not lin(w.ty)) or w.id in own for w in c):
                yield c
        return
    for k in range(len(must), maxlen + 1):
        for c in _args_choices(ctx, None, k):
            ids = [w.id for w in c]
            if all(m.id in ids for m in must) and all((not lin(w.ty)) or w.id in own for w in c):
                yield c


def close_choices(ctx: Ctx) -> list:
    top = ctx.top
    sc = ctx.sc
    out = []
    if top.info.get("tracked") is not None:
        tr = [ctx.wires[w] for w in top.info["tracked"] if w is not None]
        ids = [w.id for w in tr]
        if _consumes_all(ctx, ids) and _no_dup_lin(ctx, ids):
            out.append(["close_tracked"])
    if top.kind in ("dfg", "func", "case"):
        want = top.info.get("want")  # established contract row (cases after the first, declared functions)
        for c in _rows_with(ctx, want, sc.extra.get("max_out", 2)):
            out.append(["close", [w.id for w in c]])
    elif top.kind == "loop":
        ji, rest = top.info["ji"], top.info["rest"]
        for rc in _args_choices(ctx, rest, len(rest)):
            rids = [w.id for w in rc]
            # Continue: values of the just-input types
            for vc in _args_choices(ctx, ji, len(ji)):
                ids = rids + [w.id for w in vc]
                if _consumes_all(ctx, ids) and _no_dup_lin(ctx, ids):
                    for jo in top.info["jo_options"]:
                        out.append(["close_loop", 0, [w.id for w in vc], rids, jo])
            for jo in top.info["jo_options"]:
                for vc in _args_choices(ctx, jo, len(jo)):
                    ids = rids + [w.id for w in vc]
                    if _consumes_all(ctx, ids) and _no_dup_lin(ctx, ids):
                        out.append(["close_loop", 1, [w.id for w in vc], rids, jo])
    elif top.kind == "block":
        out += _block_close_choices(ctx)
    return out


def _consumes_all(ctx, ids):
    own = set(ctx.top.wires)
    for m in _must_consume(ctx):
        if m.id not in ids:
            return False
    for i in ids:
        w = ctx.wires[i]
        if lin(w.ty) and i not in own:
            return False
    return True


def _no_dup_lin(ctx, ids):
    return all(not lin(ctx.wires[i].ty) or ids.count(i) == 1 for i in ids)


# ------------------------------------------------------------------------------ CFG support
def _block_close_choices(ctx: Ctx) -> list:
    """A block ends by choosing its branching: 'exit' (single successor = exit), 'next' (single
    successor = a new block), 'branch' (2-way on a Bool wire: variant 0 -> new block / exit,
    variant 1 -> exit), 'back' (2-way: variant 0 -> entry (back edge), variant 1 -> exit)."""
    top = ctx.top
    cfg = top.info["cfg"]
    out = []
    n_blocks = cfg["n_blocks"]
    max_blocks = ctx.sc.extra.get("max_blocks", 3)
    exit_row = cfg["exit_row"]
    for k in range(0, ctx.sc.extra.get("max_out", 2) + 1):
        for c in _args_choices(ctx, None, k):
            ids = [w.id for w in c]
            if not (_consumes_all(ctx, ids) and _no_dup_lin(ctx, ids)):
                continue
            row = [w.ty for w in c]
            if exit_row is None or exit_row == row:
                out.append(["close_block", "exit", ids])
            if n_blocks < max_blocks:
                out.append(["close_block", "next", ids])
            # two-way branches need a Bool wire to switch on and only copyable/linear-safe others
            for bw in ctx.visible():
                if bw.ty != B or bw.id in ids and lin(bw.ty):
                    continue
                if exit_row is None or exit_row == row:
                    if n_blocks < max_blocks:
                        out.append(["close_block", "branch", ids, bw.id])
                    if top.info.get("is_entry") is False and cfg["entry_in"] == row:
                        out.append(["close_block", "back", ids, bw.id])
                    out.append(["close_block", "both_exit", ids, bw.id])
    return out


# ------------------------------------------------------------------------------ execution
class WellFormednessBug(Exception):
    """The harness produced a call outside its own menu (replay of a foreign program)."""


def apply(ctx: Ctx, call) -> None:
    """Executes one call on the real builders and updates the abstract context."""
    from hugr import ops, tys

    kind = call[0]
    sc = ctx.sc
    ctx.calls += 1
    if kind == "def":
        name, row, declared = call[1], call[2], call[3]
        params = call[4] if len(call) > 4 else []
        f = ctx.root.define_function(
            name, [T.build_type(t) for t in row], [T.build_type(t) for t in declared] if declared is not None else None,
            [T.build_param(p) for p in params] or None,
        )
        fd = {"name": name, "node": f.parent_node, "in": row, "out": declared, "b": f, "open": True, "params": params}
        fd["insts"] = _insts(sc, fd)
        ctx.funcs.append(fd)
        ctx.push("func", f, row, barrier=True, want=declared, fidx=len(ctx.funcs) - 1)
        if params:
            ctx.features.add("polymorphic-function")
        return
    if kind == "decl":
        d = next(x for x in (*sc.extra.get("decls", ()), *sc.extra.get("late_decls", ())) if x[0] == call[1])
        poly = d[1]
        node = ctx.root.declare_function(d[0], T.build_type(poly))
        fd = {"name": d[0], "node": node, "in": poly[2][1], "out": poly[2][2], "b": None, "open": False, "params": poly[1], "insts": list(d[2])}
        ctx.funcs.append(fd)
        ctx.features.add("declared-function")
        return
    top = ctx.top
    b = top.b
    if kind == "op":
        name, ids = call[1], call[2]
        param = sc.tags[call[3]] if name == "Tag" else None
        ws = [ctx.wires[i] for i in ids]
        res = op_result(name, [w.ty for w in ws], param)
        if res is None:
            raise WellFormednessBug(call)
        op = build_op(name, param)
        hs = [w.h for w in ws]
        via = ctx.calls % 3
        # scalar values that Python's == conflates (true/1/1.0, false/0/0.0) rotate through the nodes of one program
        md = ({"meta": {"k": [ctx.calls, "é"], "s": name, "b": (True, 1, 1.0)[(ctx.calls // 3) % 3], "z": (0, False, 0.0)[(ctx.calls // 3 + ctx.calls) % 3]}}
              if sc.extra.get("metadata") and via != 2 else {})
        if via == 0:
            n = b.add_op(op, *hs, **({"metadata": md["meta"]} if md else {}))
        elif via == 1:
            n = b.add(op(*hs), **({"metadata": md["meta"]} if md else {}))
        else:
            (n,) = b.extend(op(*hs))
        if md:
            ctx.features.add("metadata")
        _consume(ctx, ws)
        top.nodes.append(n)
        for i, t in enumerate(res):
            ctx.new_wire(t, n.out(i), n)
        ctx.handles.append((f"{['add_op', 'add', 'extend'][via]}({name})", n, len(res)))
        if any(w.frame_uid != top.uid for w in ws):
            ctx.features.add("nonlocal-wire")
        if len(res) > 1:
            ctx.features.add("multi-output")
    elif kind == "load":
        spec, ty = VALUES[call[1]]
        from mc.drivers.opterms import build_value

        n = b.load(build_value(spec))
        top.nodes.append(n)
        ctx.new_wire(ty, n.out(0), n)
        ctx.handles.append(("load", n, 1))
        ctx.features.add("const")
    elif kind == "order":
        i, j = call[1], call[2]
        src = top.nodes[i]
        dst = b.output_node if j == "out" else top.nodes[j]
        b.add_state_order(src, dst)
        top.info.setdefault("orders", set()).add((i, j) if j != "out" else ("out", i))
        ctx.features.add("order-edge")
    elif kind == "nested":
        ws = [ctx.wires[i] for i in call[1]]
        nb = b.add_nested(*[w.h for w in ws])
        _consume(ctx, ws)
        top.nodes.append(nb.parent_node)
        ctx.push("dfg", nb, [w.ty for w in ws])
        ctx.features.add("nested")
    elif kind in ("cond", "if"):
        cw = ctx.wires[call[1]]
        ws = [ctx.wires[i] for i in call[2]]
        rows = T.ref_rows(cw.ty)
        other = [w.ty for w in ws]
        if kind == "cond":
            cb = b.add_conditional(cw.h, *[w.h for w in ws])
            _consume(ctx, [cw, *ws])
            top.nodes.append(cb.parent_node)
            case = cb.add_case(0)
            ctx.push("case", case, [*rows[0], *other], cond=cb, case_idx=0, rows=rows, other=other, want=None, style="cond")
        else:
            ifb = b.add_if(cw.h, *[w.h for w in ws])
            _consume(ctx, [cw, *ws])
            top.nodes.append(ifb.conditional_node)
            ctx.push("case", ifb, [*rows[1], *other], cond=None, case_idx=1, rows=rows, other=other, want=None, style="if")
        ctx.features.add("conditional")
    elif kind == "loop":
        jis = [ctx.wires[i] for i in call[1]]
        rs = [ctx.wires[i] for i in call[2]]
        lb = b.add_tail_loop([w.h for w in jis], [w.h for w in rs])
        _consume(ctx, [*jis, *rs])
        top.nodes.append(lb.parent_node)
        ji, rest = [w.ty for w in jis], [w.ty for w in rs]
        ctx.push("loop", lb, [*ji, *rest], ji=ji, rest=rest, jo_options=sc.extra.get("jo_options", [[], [B]]))
        ctx.features.add("tail-loop")
    elif kind == "cfg":
        ws = [ctx.wires[i] for i in call[1]]
        cb = b.add_cfg(*[w.h for w in ws])
        _consume(ctx, ws)
        top.nodes.append(cb.parent_node)
        row = [w.ty for w in ws]
        cfg = {"b": cb, "n_blocks": 1, "exit_row": None, "entry_in": row, "pending": [], "entry_wires": None, "holder_depth": len(ctx.frames)}
        ctx.cfgs.append(cfg)
        holder = Frame(ctx.next_uid, "cfgholder", cb, info={"cfg": cfg})
        ctx.next_uid += 1
        ctx.frames.append(holder)
        eb = cb.add_entry()
        ctx.push("block", eb, row, cfg=cfg, is_entry=True)
        ctx.features.add("cfg")
    elif kind == "close":
        ws = [ctx.wires[i] for i in call[1]]
        _close_df(ctx, ws)
    elif kind == "close_loop":
        _close_loop(ctx, call)
    elif kind == "close_block":
        _close_block(ctx, call)
    elif kind == "call":
        f = ctx.funcs[call[1]]
        targs, irow, orow = f["insts"][call[3]]
        ws = [ctx.wires[i] for i in call[2]]
        kw = {}
        if f["params"]:
            kw = dict(instantiation=T.build_type(["G", irow, orow, []]), type_args=[T.build_arg(a) for a in targs])
            ctx.features.add("polymorphic-call")
        n = b.call(f["node"], *[w.h for w in ws], **kw)
        _consume(ctx, ws)
        top.nodes.append(n)
        for i, t in enumerate(orow):
            ctx.new_wire(t, n.out(i), n)
        ctx.handles.append(("call", n, len(orow)))
        ctx.features.add("call")
    elif kind == "loadfn":
        f = ctx.funcs[call[1]]
        targs, irow, orow = f["insts"][call[2]]
        kw = {}
        if f["params"]:
            kw = dict(instantiation=T.build_type(["G", irow, orow, []]), type_args=[T.build_arg(a) for a in targs])
        n = b.load_function(f["node"], **kw)
        top.nodes.append(n)
        ctx.new_wire(["G", irow, orow, []], n.out(0), n)
        ctx.features.add("load-function")
    elif kind == "const":
        from mc.drivers.opterms import build_value

        spec, ty = VALUES[call[1]]
        if call[2] == "here":
            node = b.add_const(build_value(spec), parent=b.parent_node)
            scope = top.uid
        else:
            node = b.add_const(build_value(spec))
            scope = None
        ctx.consts.append({"node": node, "ty": ty, "scope": scope})
        ctx.features.add("const-node")
    elif kind == "loadc":
        c = ctx.consts[call[1]]
        n = b.load(c["node"])
        top.nodes.append(n)
        ctx.new_wire(c["ty"], n.out(0), n)
        ctx.handles.append(("load(node)", n, 1))
        ctx.features.add("const")
        if sum(1 for x in ctx.wires.values() if x.node is n) and len([1 for p in ctx.hugr.linked_ports(c["node"].out(0))]) > 1:
            ctx.features.add("const-loaded-twice")
    elif kind == "insert":
        fname = call[1]
        ws = [ctx.wires[i] for i in call[2]]
        thunk, want, outs, how = FRAGMENTS[fname]
        # one fragment builder per program: a second `insert` call of the same kind inserts the same object again
        cache = ctx.__dict__.setdefault("frag_builders", {})
        if fname not in cache:
            cache[fname] = thunk()
        fb = cache[fname]
        hs = [w.h for w in ws]
        if how == "insert_tail_loop":
            n = b.insert_tail_loop(fb, hs[:1], hs[1:])
        elif how == "insert_conditional":
            n = b.insert_conditional(fb, hs[0], *hs[1:])
        else:
            n = getattr(b, how)(fb, *hs)
        _consume(ctx, ws)
        top.nodes.append(n)
        for i, t in enumerate(outs):
            ctx.new_wire(t, n.out(i), n)
        ctx.handles.append((how, n, len(outs)))
        ctx.features.add("insert")
    elif kind == "ldef":
        name, row, declared = call[1], call[2], call[3]
        f = b.define_function(name, [T.build_type(t) for t in row], [T.build_type(t) for t in declared] if declared is not None else None, parent=b.parent_node)
        fd = {"name": name, "node": f.parent_node, "in": row, "out": declared, "b": f, "open": True, "params": [], "scope": top.uid}
        fd["insts"] = _insts(sc, fd)
        ctx.funcs.append(fd)
        ctx.push("func", f, row, barrier=True, want=declared, fidx=len(ctx.funcs) - 1)
        ctx.features.add("local-function")
    elif kind == "iop":
        name, idxs = call[1], call[2]
        tr = top.info["tracked"]
        ws = [ctx.wires[a[1]] if isinstance(a, list) else ctx.wires[tr[a]] for a in idxs]
        res = op_result(name, [w.ty for w in ws])
        if res is None:
            raise WellFormednessBug(call)
        n = b.add(build_op(name)(*[ctx.wires[a[1]].h if isinstance(a, list) else a for a in idxs]))
        _consume(ctx, ws)
        top.nodes.append(n)
        new = [ctx.new_wire(t, n.out(i), n) for i, t in enumerate(res)]
        for p, i in enumerate(idxs):
            if not isinstance(i, list):
                tr[i] = new[p].id
        ctx.features.add("tracked-command")
    elif kind == "untrack":
        b.untrack_wire(call[1])
        top.info["tracked"][call[1]] = None
    elif kind == "track":
        b.track_wire(ctx.wires[call[1]].h)
        top.info["tracked"].append(call[1])
    elif kind == "close_tracked":
        tr = [ctx.wires[w] for w in top.info["tracked"] if w is not None]
        b.set_tracked_outputs()
        _consume(ctx, tr)
        ctx.frames.pop()
        ctx.handles.append(("TrackedDfg builder", b, len(tr)))
    elif kind == "callind":
        fw = ctx.wires[call[1]]
        ws = [ctx.wires[i] for i in call[2]]
        n = b.add_op(ops.CallIndirect(), fw.h, *[w.h for w in ws])
        _consume(ctx, ws)
        top.nodes.append(n)
        for i, t in enumerate(fw.ty[2]):
            ctx.new_wire(t, n.out(i), n)
        ctx.handles.append(("add_op(CallIndirect)", n, len(fw.ty[2])))
        ctx.features.add("call-indirect")
    else:
        raise AssertionError(call)


def _subst_v(t, targs):
    """Substitute type variables (Type args only) in a spec."""
    if isinstance(t, list) and t and t[0] == "V":
        return targs[t[1]][1]
    if isinstance(t, list):
        return [_subst_v(x, targs) for x in t]
    return t


def _insts(sc, fd):
    """Instantiations offered for calls of a function: [(type args, in row, out row)]."""
    if fd["out"] is None:
        return []
    if not fd["params"]:
        return [([], fd["in"], fd["out"])]
    out = []
    for ty in sc.extra.get("inst_types", [B, I]):
        targs = [["TA", ty] for _ in fd["params"]]
        out.append((targs, _subst_v(fd["in"], targs), _subst_v(fd["out"], targs)))
    return out


def _consume(ctx, ws):
    for w in ws:
        if lin(w.ty):
            if w.used:
                raise WellFormednessBug(f"linear wire {w.id} used twice")
            w.used = True


def _retire(ctx: Ctx, frame: Frame):
    for wid in frame.wires:
        w = ctx.wires[wid]
        if not lin(w.ty):
            ctx.dead.append((w, frame.kind))


def _pop_to_parent(ctx: Ctx, node, out_types, label):
    """The innermost frame is closed; its container node yields `out_types` in the parent frame."""
    _retire(ctx, ctx.frames.pop())
    if ctx.frames and ctx.frames[-1].kind == "cfgholder" and ctx.frames[-1].info["cfg"].get("is_root") and node is ctx.frames[-1].b.parent_node:
        ctx.frames.pop()
    if ctx.frames:
        for i, t in enumerate(out_types):
            ctx.new_wire(t, node.out(i), node)
    if label:
        ctx.handles.append((label, node, len(out_types)))


def _close_df(ctx: Ctx, ws):
    top = ctx.top
    b = top.b
    b.set_outputs(*[w.h for w in ws])
    _consume(ctx, ws)
    row = [w.ty for w in ws]
    if any(w.frame_uid != top.uid for w in ws):
        ctx.features.add("nonlocal-wire")
    if top.kind == "dfg":
        if top.info.get("is_root"):
            ctx.frames.pop()
            ctx.handles.append(("Dfg builder", b, len(row)))
        else:
            ctx.handles.append(("add_nested builder", b, len(row)))
            _pop_to_parent(ctx, b.parent_node, row, "add_nested.parent_node")
    elif top.kind == "func":
        f = ctx.funcs[top.info["fidx"]]
        f["out"] = row
        f["open"] = False
        f["insts"] = _insts(ctx.sc, f)
        _retire(ctx, ctx.frames.pop())
    elif top.kind == "case":
        info = top.info
        rows, other = info["rows"], info["other"]
        if info["style"] == "cond":
            cb, ci = info["cond"], info["case_idx"]
            if ci + 1 < len(rows):
                _retire(ctx, ctx.frames.pop())
                case = cb.add_case(ci + 1)
                ctx.push("case", case, [*rows[ci + 1], *other], cond=cb, case_idx=ci + 1, rows=rows, other=other, want=row, style="cond")
            else:
                ctx.handles.append(("add_conditional builder", cb, len(row)))
                _pop_to_parent(ctx, cb.parent_node, row, "add_conditional.parent_node")
        else:
            if info["case_idx"] == 1:
                _retire(ctx, ctx.frames.pop())
                el = b.add_else()
                ctx.push("case", el, [*rows[0], *other], cond=None, case_idx=0, rows=rows, other=other, want=row, style="if")
            else:
                _pop_to_parent(ctx, b.conditional_node, row, "if.conditional_node")


def _close_loop(ctx: Ctx, call):
    from hugr import ops, tys

    _, variant, vids, rids, jo = call
    top = ctx.top
    b = top.b
    ji = top.info["ji"]
    vs = [ctx.wires[i] for i in vids]
    rs = [ctx.wires[i] for i in rids]
    either = tys.Either([T.build_type(t) for t in ji], [T.build_type(t) for t in jo])
    tag = b.add_op(ops.Continue(either) if variant == 0 else ops.Break(either), *[w.h for w in vs])
    b.set_loop_outputs(tag, *[w.h for w in rs])
    _consume(ctx, [*vs, *rs])
    row = [*jo, *top.info["rest"]]
    ctx.handles.append(("add_tail_loop builder", b, len(row)))
    _pop_to_parent(ctx, b.parent_node, row, "add_tail_loop.parent_node")


def _close_block(ctx: Ctx, call):
    from hugr import ops, tys, val

    mode, ids = call[1], call[2]
    top = ctx.top
    blk = top.b
    cfg = top.info["cfg"]
    cb = cfg["b"]
    ws = [ctx.wires[i] for i in ids]
    row = [w.ty for w in ws]
    if mode in ("exit", "next"):
        blk.set_single_succ_outputs(*[w.h for w in ws])
        nsucc = 1
    else:
        bw = ctx.wires[call[3]]
        blk.set_block_outputs(bw.h, *[w.h for w in ws])
        nsucc = 2
    _consume(ctx, ws)
    ctx.handles.append(("block builder", blk, nsucc))
    # copyable wires of this block are visible (Dom edges) in blocks it is known to dominate
    my_dom = list(top.info.get("dom_wires", [])) + [ctx.wires[i] for i in top.wires if not lin(ctx.wires[i].ty)]
    _retire(ctx, ctx.frames.pop())  # the block frame; the cfgholder frame stays
    node = blk.parent_node
    if mode == "exit":
        cb.branch_exit(node[0])
        cfg["exit_row"] = row
    elif mode == "both_exit":
        cb.branch_exit(node[0])
        cb.branch_exit(node[1])
        cfg["exit_row"] = row
    elif mode == "back":
        cb.branch(node[0], cb.entry)
        cb.branch_exit(node[1])
        cfg["exit_row"] = row
    elif mode == "branch":
        cb.branch_exit(node[1])
        cfg["exit_row"] = row
    if mode in ("next", "branch"):
        nb = cb.add_successor(node[0])
        cfg["n_blocks"] += 1
        # the new block has exactly one predecessor, so that predecessor dominates it
        ctx.push("block", nb, row, cfg=cfg, is_entry=False, dom_wires=my_dom if ctx.sc.extra.get("dom_wires", True) else [])
        ctx.features.add("cfg-multi-block")
        return
    # no block left open: the CFG is complete
    holder = ctx.frames[-1]
    assert holder.kind == "cfgholder"
    ctx.handles.append(("add_cfg builder" if not cfg.get("is_root") else "Cfg builder", cb, len(cfg["exit_row"])))
    _pop_to_parent(ctx, cb.parent_node, cfg["exit_row"], "add_cfg.parent_node" if not cfg.get("is_root") else None)


def complete(ctx: Ctx) -> bool:
    return not ctx.frames and (ctx.sc.root != "module" or len(ctx.funcs) == len(ctx.sc.funcs) + len(ctx.sc.extra.get("decls", ())) + len(ctx.sc.extra.get("late_decls", ())))


def run(sc: Scenario, program, observe=False) -> Ctx:
    """observe: between any two builder calls every read-only observer of the HUGR under construction is
    called (serialization may legitimately refuse an unfinished graph); what a user does at a prompt."""
    ctx = start(sc)
    for call in program:
        if observe:
            from mc.drivers.mutate import observe as _obs

            _obs(ctx.hugr)
        apply(ctx, call)
    return ctx


def default_completion(ctx: Ctx, budget: int = 24):
    """Deterministic continuation that closes every open frame: at each step the *first* close
    choice of the menu (menus list closes that return the fewest wires first).  Returns the calls
    appended, or None if some frame cannot be closed inside the alphabet."""
    added = []
    while not complete(ctx):
        if budget == 0:
            return None
        budget -= 1
        if not ctx.frames:
            calls = enabled(ctx)
        else:
            calls = close_choices(ctx)
        if not calls:
            return None
        call = calls[0]
        apply(ctx, call)
        added.append(call)
    return added
