"""Size ladders: HUGR families parametrised by one size n, built through the public builder API.

The builder-program explorer (E2) is bounded by the number of *calls*; rows stay short (<= 3),
nesting shallow (<= 3), fan-out small.  A defect that is right for small cases and wrong beyond a
threshold (the 9th port, the 3rd link on a port, the 3rd nesting level, index 10, the 4th case ...)
is outside that space.  The ladders close one size dimension at a time: for every family and every
n of a contiguous range (plus values straddling powers of two) the same oracles as for the
builder programs are applied.  Enumeration is exhaustive over (family, n) within the stated range.

Every family is available under two hosts: "dfg" (a Dfg root) and "fn" (the body of `main` in a
Module, so that the model exporter applies)."""

from __future__ import annotations

SIZES = {
    "quick": [0, 1, 2, 3, 4, 5, 6, 7, 8, 9, 10, 11, 12, 16, 17],
    "thorough": list(range(0, 41)) + [63, 64, 65, 127, 128, 129, 255, 256, 257],
}
# families whose cost grows quadratically or whose depth is limited by recursion get a cap
CAPS = {"lateconst": 3, "afterrefusal": 12, "reusedeep": 64, "deep": 60, "cases": 130, "blocks": 130, "poly": 40, "rowpoly": 130, "funcs": 130}


def _host(host, in_types):
    """-> (module or None, dataflow builder)"""
    from hugr.build.dfg import Dfg
    from hugr.build.function import Module

    if host == "dfg":
        return None, Dfg(*in_types)
    m = Module()
    return m, m.define_main(list(in_types))


def _finish(m, b):
    return (m.hugr if m is not None else b.hugr)


def wide(host, n):
    """Nodes with n ports: Input(n) -> MakeTuple(n) -> UnpackTuple(n) -> Output(n)."""
    from hugr import ops, tys

    m, d = _host(host, [tys.Bool] * n)
    t = d.add_op(ops.MakeTuple(), *d.inputs())
    u = d.add_op(ops.UnpackTuple(), t)
    d.set_outputs(*[u[i] for i in range(n)])
    return _finish(m, d)


def fanout(host, n):
    """One out port with n + 1 links (copyable wire), one in port per consumer."""
    from hugr import tys
    from hugr.std.logic import Not

    m, d = _host(host, [tys.Bool])
    (a,) = d.inputs()
    ns = [d.add(Not(a)) for _ in range(n)]
    d.set_outputs(a, *ns)
    return _finish(m, d)


def chain(host, n):
    """n siblings in a row joined by value edges, order edges to the next but one, metadata on each."""
    from hugr import tys
    from hugr.std.logic import Not

    m, d = _host(host, [tys.Bool])
    (w,) = d.inputs()
    nodes = []
    for i in range(n):
        nd = d.add(Not(w), metadata={"i": i, "s": str(i)})
        nodes.append(nd)
        if i >= 2:
            d.add_state_order(nodes[i - 2], nd)
        w = nd[0]
    if nodes:
        d.add_state_order(d.input_node, nodes[-1])
    d.set_outputs(w)
    return _finish(m, d)


def deep(host, n):
    """n nested DFGs; the innermost uses the outermost input non-locally (the wire crosses n region
    boundaries), every level also uses its parent's value."""
    from hugr import tys
    from hugr.std.logic import Not

    m, d = _host(host, [tys.Bool, tys.Qubit])
    a, q = d.inputs()
    levels = []
    cur, cur_q = d, q
    for _ in range(n):
        inner = cur.add_nested(cur_q)
        levels.append((cur, inner))
        cur, cur_q = inner, inner.inputs()[0]
    x = cur.add(Not(a))  # non-local for n >= 1
    out_b, out_q = x[0], cur_q
    for parent, inner in reversed(levels):
        inner.set_outputs(out_b, out_q)
        out_b, out_q = inner.parent_node.out(0), inner.parent_node.out(1)
    d.set_outputs(out_b, out_q)
    return _finish(m, d)


def cases(host, n):
    """Conditional over a sum with n (>= 1) variants; variant i carries i % 3 Bools; every case also
    reads an outer wire non-locally and passes a qubit through."""
    from hugr import ops, tys
    from hugr.std.logic import Not

    n = max(1, n)
    rows = [[tys.Bool] * (i % 3) for i in range(n)]
    sum_ty = tys.Sum(rows)
    m, d = _host(host, [sum_ty, tys.Qubit, tys.Bool])
    s, q, outer = d.inputs()
    with d.add_conditional(s, q) as cond:
        for i in reversed(range(n)):  # built out of order: children must still be in case order
            with cond.add_case(i) as case:
                ins = case.inputs()
                b = case.add(Not(outer))  # non-local wire into a case
                case.set_outputs(b, ins[-1])
    d.set_outputs(cond.parent_node.out(0), cond.parent_node.out(1), outer)
    return _finish(m, d)


def blocks(host, n):
    """CFG with n + 1 dataflow blocks in a chain; every block may also jump to the exit (fan-in n + 1
    on the exit block); the last block reads a value of the entry block through a Dom edge."""
    from hugr import tys
    from hugr.std.logic import Not

    m, d = _host(host, [tys.Bool])
    (a,) = d.inputs()
    cfg = d.add_cfg(a)
    with cfg.add_entry() as entry:
        (x,) = entry.inputs()
        keep = entry.add(Not(x))
        entry.set_block_outputs(x, x)  # Bool = 2 unit variants: successor 0 / 1, passes x on
    prev = entry
    for i in range(n):
        with cfg.add_successor(prev[0]) as blk:
            (y,) = blk.inputs()
            z = blk.add(Not(keep[0])) if i == n - 1 else blk.add(Not(y))  # Dom edge in the last block
            blk.set_block_outputs(y, z[0])
        cfg.branch_exit(prev[1])
        prev = blk
    cfg.branch_exit(prev[0])
    cfg.branch_exit(prev[1])
    d.set_outputs(cfg.parent_node.out(0))
    return _finish(m, d)


def loops(host, n):
    """TailLoop with n `rest` wires (alternating Bool / Qubit) and one just-input."""
    from hugr import tys

    row = [tys.Bool if i % 2 == 0 else tys.Qubit for i in range(n)]
    m, d = _host(host, [tys.Bool, *row])
    a, *rest = d.inputs()
    with d.add_tail_loop([a], rest) as tl:
        ji, *r = tl.inputs()
        # Bool as the control sum: variant 0 = continue [], variant 1 = break [] -> needs Sum([[Bool],[...]]);
        from hugr import ops

        ctl = tl.add_op(ops.Tag(1, tys.Sum([[tys.Bool], [tys.Bool]])), ji)
        tl.set_loop_outputs(ctl, *r)
    d.set_outputs(*[tl.parent_node.out(i) for i in range(n + 1)])
    return _finish(m, d)


def funcs(host, n):
    """Module with n + 1 functions; f_i calls f_{i-1}, loads it as a value and calls it indirectly.
    (host is ignored: always a module.)"""
    from hugr import ops, tys
    from hugr.build.function import Module

    m = Module()
    prev = None
    for i in range(n + 1):
        f = m.define_function(f"f{i}", [tys.Bool], [tys.Bool])
        (a,) = f.inputs()
        if prev is None:
            f.set_outputs(a)
        else:
            c = f.call(prev.parent_node, a)
            lf = f.load_function(prev.parent_node)
            ci = f.add_op(ops.CallIndirect(tys.FunctionType([tys.Bool], [tys.Bool])), lf, c[0])
            f.set_outputs(ci[0])
        prev = f
    return m.hugr


def poly(host, n):
    """A declaration polymorphic over n type parameters (alternating copyable type / bounded nat),
    called and loaded with n type arguments; a state-order edge leads into and out of the Call."""
    from hugr import tys
    from hugr.build.function import Module

    m = Module()
    params, args, ins, conc = [], [], [], []
    for i in range(n):
        if i % 2 == 0:
            params.append(tys.TypeTypeParam(tys.TypeBound.Copyable))
            args.append(tys.TypeTypeArg(tys.Bool))
            ins.append(tys.Variable(i, tys.TypeBound.Copyable))
            conc.append(tys.Bool)
        else:
            params.append(tys.BoundedNatParam())
            args.append(tys.BoundedNatArg(i))
    decl = m.declare_function("p", tys.PolyFuncType(params, tys.FunctionType(ins, ins)))
    f = m.define_main(conc)
    inst = tys.FunctionType(conc, conc)
    c = f.call(decl, *f.inputs(), instantiation=inst, type_args=args)
    lf = f.load_function(decl, instantiation=inst, type_args=args)
    f.add_state_order(f.input_node, c)
    f.add_state_order(c, lf)
    f.set_outputs(*[c[i] for i in range(len(conc))])
    return m.hugr


def rowpoly(host, n):
    """A declaration polymorphic over one row variable, instantiated with a row of n types; order
    edges into and out of the Call (its order port sits after n value ports, not after 1)."""
    from hugr import tys
    from hugr.build.function import Module

    m = Module()
    rv = tys.RowVariable(0, tys.TypeBound.Any)
    decl = m.declare_function("r", tys.PolyFuncType([tys.ListParam(tys.TypeTypeParam(tys.TypeBound.Any))], tys.FunctionType([rv], [tys.Bool, rv])))
    row = [tys.Bool if i % 2 == 0 else tys.Qubit for i in range(n)]
    f = m.define_main(row)
    inst = tys.FunctionType(row, [tys.Bool, *row])
    c = f.call(decl, *f.inputs(), instantiation=inst, type_args=[tys.SequenceArg([tys.TypeTypeArg(t) for t in row])])
    f.add_state_order(f.input_node, c)
    f.add_state_order(c, f.output_node)
    f.set_outputs(*[c[i] for i in range(n + 1)])
    return m.hugr


def reuse(host, n):
    """n + 2 chained nodes; every second one is deleted and re-added in reverse order (indices are
    reused, child order != index order, indices >= 10 appear for n >= 8), metadata on every node."""
    from hugr import ops, tys
    from hugr.std.logic import Not

    m, d = _host(host, [tys.Bool])
    (a,) = d.inputs()
    nodes = [d.add(Not(a), metadata={"k": i}) for i in range(n + 2)]
    d.set_outputs(*[nd[0] for nd in nodes[::2]])  # only the kept nodes feed the output
    h = d.hugr
    gone = nodes[1::2]
    for nd in gone:
        h.delete_node(nd)
    for j, _ in enumerate(reversed(gone)):
        nn = h.add_node(ops.Noop(tys.Bool), d.parent_node, 1, metadata={"re": j, "t": True, "one": 1})
        h.add_link(a.out_port(), nn.inp(0))
    return _finish(m, d)


def crossorder(host, n):
    """n + 1 independent siblings; state-order edges run from every later-created node to the one created just
    before it (the target precedes its source in the child order), plus one edge from the last to the first."""
    from hugr import ops, tys

    m, d = _host(host, [tys.Bool])
    (a,) = d.inputs()
    nodes = [d.add_op(ops.Noop(tys.Bool), a) for _ in range(n + 1)]
    for i in range(1, n + 1):
        d.add_state_order(nodes[i], nodes[i - 1])
    if n >= 2:
        d.add_state_order(nodes[n], nodes[0])
    d.set_outputs(*[nd[0] for nd in nodes])
    return _finish(m, d)


def reusedeep(host, n):
    """n spare nodes are created *before* a nested container X and deleted afterwards (highest first), then
    nested DFGs are built inside X: they take the freed low indices, so parents, children and grandchildren
    have indices in every relative order (a child below its parent below its grandparent ...)."""
    from hugr import ops, tys
    from hugr.std.logic import Not

    m, d = _host(host, [tys.Bool])
    (a,) = d.inputs()
    spares = [d.add_op(ops.Noop(tys.Bool), a) for _ in range(n)]
    x = d.add_nested(a)
    for sp in reversed(spares):
        d.hugr.delete_node(sp)
    cur, w = x, x.inputs()[0]
    levels = []
    for _ in range(max(1, (n + 2) // 3)):
        inner = cur.add_nested(w)
        levels.append(inner)
        cur, w = inner, inner.inputs()[0]
    y = cur.add(Not(w), metadata={"leaf": True})
    out = y[0]
    for inner in reversed(levels):
        inner.set_outputs(out)
        out = inner.parent_node.out(0)
    x.set_outputs(out)
    d.set_outputs(x.parent_node.out(0))
    return _finish(m, d)


def lateconst(host, n):
    """A function-valued constant over a body that is finished only later; before that the whole graph is
    serialized n times (each attempt is refused: the body has no outputs yet) and observed otherwise.  Under the
    module host the constant is the only thing in the module at that time, so the refusal comes from the body."""
    from hugr import tys, val
    from hugr.build.dfg import Dfg
    from hugr.build.function import Module
    from hugr.std.logic import Not

    body = Dfg(tys.Bool)
    x = body.add(Not(body.inputs()[0]), metadata={"in-body": n})

    def look(h, c):
        for _ in range(n):
            for f in (lambda: h.to_json(), lambda: h.render_dot(), lambda: h.port_kind(c.out(0)), lambda: h.to_model()):
                try:
                    f()
                except Exception:  # noqa: BLE001
                    pass

    if host == "fn":
        m = Module()
        c = m.add_const(val.Function(body.hugr))
        look(m.hugr, c)
        body.set_outputs(x)
        d = m.define_main([tys.Bool])
    else:
        m, d = None, Dfg(tys.Bool)
        c = d.add_const(val.Function(body.hugr))
        look(d.hugr, c)
        body.set_outputs(x)
    (a,) = d.inputs()
    fv = d.load(c)
    d.set_outputs(a, fv)
    return _finish(m, d)


def afterrefusal(host, n):
    """History with a refused call in it: n spare nodes are deleted (free indices), an insert_nested with a wire
    from inside a sibling region is refused, then building goes on (another insertion, an op, the outputs).
    Whatever the refused call left behind, the graph that is serialized afterwards is judged like any other."""
    from hugr import tys
    from hugr.std.logic import Not
    from mc.drivers import bpm

    m, d = _host(host, [tys.Bool])
    (a,) = d.inputs()
    spare = [d.add(Not(a)) for _ in range(n)]
    region = d.add_nested(a)
    region.set_outputs(*region.inputs())
    for sp in spare:
        d.hugr.delete_node(sp)
    try:
        d.insert_nested(bpm._frag_dfg(), region.inputs()[0])
    except Exception:  # noqa: BLE001
        pass
    node = d.insert_nested(bpm._frag_dfg(), a)
    x = d.add(Not(a))
    d.set_outputs(node.out(0), node.out(1), x, region.parent_node.out(0))
    return _finish(m, d)


FAMILIES = {"crossorder": crossorder, "reusedeep": reusedeep, "wide": wide, "fanout": fanout, "chain": chain, "deep": deep, "cases": cases, "blocks": blocks, "loops": loops,
            "funcs": funcs, "poly": poly, "rowpoly": rowpoly, "reuse": reuse, "afterrefusal": afterrefusal, "lateconst": lateconst}
MODULE_ONLY = {"funcs", "poly", "rowpoly"}
#: families whose HUGR holds what a refused call left behind (an unwired copy): not valid, not drawn/exported - only
#: the serializer's own promises (C02 round trip, C03 document sanity) are judged on them
LEFTOVERS = {"afterrefusal"}
# `reuse` leaves re-added Noops whose outputs are unused (fine: Bool is copyable) -> still a valid HUGR


def cases_for(tier, hosts=("dfg", "fn"), families=None, leftovers=False):
    for fam in families or [f for f in FAMILIES if leftovers or f not in LEFTOVERS]:
        for n in SIZES[tier]:
            if n > CAPS.get(fam, 10**9):
                continue
            for host in hosts:
                if fam in MODULE_ONLY and host != "fn":
                    continue
                yield [fam, host, n]


def build(case):
    fam, host, n = case
    return FAMILIES[fam](host, n)


def run_ladder(tier, judge, col, hosts=("dfg", "fn"), families=None):
    """Applies judge(hugr) -> [(signature, message)] to every ladder case; violations go to the
    collector with a replayable case {"ladder": [family, host, n]}.  Returns the number of cases."""
    k = 0
    for case in cases_for(tier, hosts, families):
        k += 1
        try:
            h = build(case)
        except Exception as e:  # noqa: BLE001
            col.add(f"ladder:{case[0]}:build-raised:{type(e).__name__}", f"building ladder case {case} raised {type(e).__name__}: {e}", {"ladder": case, "tier": tier})
            continue
        for sig, msg in judge(h):
            col.add(f"{sig}:ladder-{case[0]}", f"{msg} | ladder={case}", {"ladder": case, "tier": tier})
    return k


def replay_ladder(case, judge):
    h = build(case["ladder"])
    return [(f"{sig}:ladder-{case['ladder'][0]}", f"{msg} | ladder={case['ladder']}") for sig, msg in judge(h)]
