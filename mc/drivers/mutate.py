"""Store-level mutation histories applied on top of builder-built HUGRs (C02 / C03 / C08 / C20):
delete_node(leaf), add_node(complete op), add_order_link, delete_link, insert_hugr(fragment),
metadata assignment, and delete+add sequences that force index reuse.  Every mutation keeps all
operations complete.  Menus are computed through the public API only and are deterministic."""

from __future__ import annotations

META_VALUES = ["s", "é✓", 0, 1.5, True, None, [1, "a"], {"k": {}}]


def _frag(name):
    from hugr import ops, tys
    from hugr.build.dfg import Dfg
    from hugr.hugr import Hugr
    from hugr.std.logic import Not

    if name == "one":
        return Hugr(ops.Custom("frag_one", tys.FunctionType.empty(), "d", "e.x"))
    if name == "split":  # a two-output op whose second output is not connected (yet)
        d = Dfg(tys.Bool)
        n = d.add_op(ops.Custom("split", tys.FunctionType([tys.Bool], [tys.Bool, tys.Bool], ["e.x"]), "", "e.x"), d.inputs()[0])
        d.set_outputs(n[0])
        # ... and a two-input op whose second input is not connected (yet): the later link stays inside both signatures
        sink = d.hugr.add_node(ops.Custom("sink", tys.FunctionType([tys.Bool, tys.Bool], [], ["e.x"]), "", "e.x"), d.parent_node)
        d.hugr.add_link(d.input_node.out(0), sink.inp(0))
        return d.hugr
    d = Dfg(tys.Bool)
    n = d.add(Not(d.inputs()[0]), metadata={"m": [1, "é"]})
    d.add_state_order(d.input_node, n)
    d.set_outputs(n, n)
    return d.hugr


def is_df_node(h, n):
    from hugr.ops import Call, DataflowOp

    return isinstance(h[n].op, (DataflowOp, Call))


def menu(h, tier="quick"):
    from hugr.hugr.node_port import Node

    nodes = list(h)
    out = []
    leaves = [n for n in nodes if n != h.root and not h.children(n)]
    for n in leaves:
        out.append(["del", n.idx])
    containers = [n for n in nodes if h.children(n)]
    parents = [h.root] + [c for c in containers if c != h.root][:1]
    for p in parents:
        out.append(["addnode", p.idx, "custom"])
        out.append(["addnode", p.idx, "const"])
        if p == h.root:
            out.append(["addnode", p.idx, "natdecl"])
            out.append(["addnode", p.idx, "nullconst"])
            out.append(["addnode", p.idx, "fnconst"])
        out.append(["insert", "one", p.idx])
        out.append(["insert", "dfg", p.idx])
    # insert a fragment, then connect a port of the *inserted copy* that was not connected in the fragment
    out.append(["insertlink", h.root.idx])
    out.append(["insertdef", "dfg"])  # the documented default of insert_hugr: parent omitted = under the root
    vals = META_VALUES if tier == "thorough" else META_VALUES[:2] + META_VALUES[5:]
    for i, n in enumerate([nodes[0], nodes[-1]]):
        for j, v in enumerate(vals):
            out.append(["meta", n.idx, f"k{j}", v])
    links = list(h.links())
    for k in range(len(links)):
        out.append(["dellink", k])
    # order link between two dataflow siblings (earlier -> later)
    from hugr import ops as _ops

    for c in containers:
        kids = [k for k in h.children(c) if is_df_node(h, k)]
        if len(kids) < 3 or not isinstance(h[kids[0]].op, _ops.Input) or not isinstance(h[kids[1]].op, _ops.Output):
            continue
        n_added = 0
        for x in kids[2:]:
            # an order link into and out of every dataflow child (Call / LoadConst / containers included)
            if x not in list(h.outgoing_order_links(kids[0])):
                out.append(["order", kids[0].idx, x.idx])
                n_added += 1
            if kids[1] not in list(h.outgoing_order_links(x)):
                out.append(["order", x.idx, kids[1].idx])
                n_added += 1
            if n_added >= 4:
                break
    # delete a leaf and add a node under the same parent: the new node reuses the low index but is
    # the *last* child, so child order and index order disagree
    for n in leaves[:2]:
        out.append(["deladd", n.idx])
    # index reuse: free two leaves a < b, then add a container (reuses b) with a child (reuses a)
    if len(leaves) >= 2:
        out.append(["reuse", leaves[0].idx, leaves[-1].idx])
    return out


def apply(h, m):
    from hugr import ops, tys, val
    from hugr.hugr.node_port import Node

    k = m[0]
    if k == "del":
        h.delete_node(Node(m[1]))
    elif k == "addnode":
        if m[2] == "custom":
            h.add_node(ops.Custom("added", tys.FunctionType([tys.Bool], [tys.Qubit], ["e.x"]), "desc", "e.x", [tys.BoundedNatArg(2)]), Node(m[1]), 1, metadata={"added": True})
        elif m[2] == "natdecl":
            # unbounded nat parameter: the wire format carries an explicit null here
            sig = tys.PolyFuncType([tys.BoundedNatParam(), tys.ListParam(tys.TupleParam([tys.StringParam()]))], tys.FunctionType([], [tys.Tuple()]))
            h.add_node(ops.FuncDecl("natdecl", sig), Node(m[1]))
        elif m[2] == "fnconst":
            # a function-valued constant whose body carries metadata, nested in a tuple
            h.add_const(val.Tuple(val.Function(_frag("dfg")), val.TRUE), Node(m[1]))
        elif m[2] == "nullconst":
            h.add_const(val.Extension("NullPayload", tys.Opaque("T", tys.TypeBound.Copyable, [tys.VariableArg(0, tys.BoundedNatParam())], "e.x"), None, ["e.x"]), Node(m[1]))
        else:
            h.add_const(val.Tuple(val.TRUE, val.FALSE), Node(m[1]))
    elif k == "insert":
        h.insert_hugr(_frag(m[1]), Node(m[2]))
    elif k == "insertdef":
        h.insert_hugr(_frag(m[1]))
    elif k == "insertlink":
        frag = _frag("split")
        mp = h.insert_hugr(frag, Node(m[1]))
        split = next(n for n in frag if isinstance(frag[n].op, ops.Custom) and frag[n].op.op_name == "split")
        sink = next(n for n in frag if isinstance(frag[n].op, ops.Custom) and frag[n].op.op_name == "sink")
        observe(h, render=True)  # the inserted copy is looked at before it is touched
        h.add_link(mp[split].out(1), mp[sink].inp(1))
    elif k == "meta":
        h[Node(m[1])].metadata[m[2]] = m[3]
    elif k == "dellink":
        s, d = list(h.links())[m[1]]
        h.delete_link(s, d)
    elif k == "order":
        h.add_order_link(Node(m[1]), Node(m[2]))
    elif k == "deladd":
        par = h[Node(m[1])].parent
        h.delete_node(Node(m[1]))
        h.add_node(ops.Custom("readded", tys.FunctionType([], [tys.Bool], ["e.x"]), "", "e.x"), par, 1, metadata={"readded": m[1]})
    elif k == "reuse":
        h.delete_node(Node(m[1]))
        h.delete_node(Node(m[2]))
        c = h.add_node(ops.DFG([], []), h.root, 0)
        h.add_node(ops.Input([]), c, 0)
        h.add_node(ops.Output([]), c)
    else:
        raise AssertionError(m)


def observe(h, render=False):
    """Every read-only observer of a Hugr, called before a mutation so that anything memoised too
    early (a cached link list, a cached serialization, a renderer's scratch state) is in place when the
    mutation happens.  Observers may legitimately raise on incomplete graphs; results are discarded."""
    obs = [lambda: h.to_json(), lambda: list(h.links()), lambda: h.to_model(), lambda: [h.children(n) for n in h],
           lambda: [(h.num_in_ports(n), h.num_out_ports(n)) for n in h], lambda: h.num_nodes()]
    if render:  # the renderer is only worth its cost where drawings are judged (C20)
        obs.append(lambda: h.render_dot())
    for f in obs:
        try:
            f()
        except Exception:  # noqa: BLE001
            pass


LOADED_KINDS = ("del", "addnode", "insert", "insertlink", "insertdef", "meta", "dellink", "order", "deladd", "reuse")


def first_of_each(menu_, kinds):
    picked, seen = [], set()
    for m in menu_:
        if m[0] in kinds and m[0] not in seen:
            seen.add(m[0])
            picked.append(m)
    return picked


def load_copy(h):
    """The HUGR a reader gets from the document of h (a HUGR of non-builder origin)."""
    from hugr.hugr import Hugr

    return Hugr.load_json(h.to_json())


def translate(m, h, l):
    """The mutation of h (named by h's node indices) spelled for l, a HUGR with the same hierarchy whose
    indices may differ (the k-th node of the hierarchy-only numbering of h is the k-th of l)."""
    from mc.checks.c03 import canonical_numbering

    _, pos = canonical_numbering(h)
    order_l, pos_l = canonical_numbering(l)
    t = lambda i: order_l[pos[i]].idx  # noqa: E731
    k = m[0]
    if k in ("del", "deladd"):
        return [k, t(m[1])]
    if k == "addnode":
        return [k, t(m[1]), m[2]]
    if k == "insertlink":
        return [k, t(m[1])]
    if k == "insertdef":
        return list(m)
    if k == "insert":
        return [k, m[1], t(m[2])]
    if k == "meta":
        return [k, t(m[1]), m[2], m[3]]
    if k in ("order", "reuse"):
        return [k, t(m[1]), t(m[2])]
    if k == "dellink":
        s, d = list(h.links())[m[1]]
        want = (pos[s.node.idx], s.offset, pos[d.node.idx], d.offset)
        for j, (s2, d2) in enumerate(l.links()):
            if (pos_l[s2.node.idx], s2.offset, pos_l[d2.node.idx], d2.offset) == want:
                return [k, j]
        return None  # the link is missing from l: reported by the round-trip comparison itself
    raise AssertionError(m)


def loaded_histories(h_factory, tier="quick", kinds=LOADED_KINDS, pre=observe):
    """Start from a non-initial state of another origin: the HUGR is built, written and read back, and the
    *loaded* copy is then mutated (first mutation of each kind of its own menu).  Yields (history, hugr)
    with ["loaded"] as the first history entry; nothing is yielded if the document cannot be written or
    read (the round-trip check reports that)."""
    pre = pre or (lambda h: None)
    try:
        l0 = load_copy(h_factory())
    except Exception:  # noqa: BLE001
        return
    for m in first_of_each(menu(l0, tier), kinds):
        l1 = load_copy(h_factory())
        pre(l1)
        try:
            apply(l1, m)
        except Exception as e:  # noqa: BLE001
            yield [["loaded"], m, ["raised", f"{type(e).__name__}: {e}"]], None
            continue
        yield [["loaded"], m], l1


def histories(h_factory, depth, tier="quick", kinds=None, pre=observe):
    """All mutation histories up to `depth`; yields (history, hugr).  `kinds` restricts the first
    level to the first mutation of each listed kind.  `pre` (default: observe) is called on the graph
    before every mutation: mutating an already-observed graph is the ordinary case."""
    pre = pre or (lambda h: None)
    h0 = h_factory()
    yield [], h0
    if depth == 0:
        return
    first = menu(h0, tier)
    if kinds is not None:
        picked, seen = [], set()
        for m in first:
            if m[0] in kinds and m[0] not in seen:
                seen.add(m[0])
                picked.append(m)
        first = picked
    for m in first:
        h1 = h_factory()
        pre(h1)
        apply(h1, m)
        yield [m], h1
        if depth >= 2:
            for m2 in menu(h1, tier):
                h2 = h_factory()
                pre(h2)
                apply(h2, m)
                pre(h2)
                apply(h2, m2)
                yield [m, m2], h2
