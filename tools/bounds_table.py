#!/usr/bin/env python3
"""Prints the 'as built' table of DESIGN section 8 from evidence/by_tier/*.json (what the last quick and
thorough run of every check actually covered)."""
import json
from pathlib import Path

EV = Path(__file__).resolve().parents[1] / "evidence" / "by_tier"


def cell(pid, tier):
    f = EV / f"{pid}.{tier}.json"
    if not f.exists():
        return "-"
    e = json.loads(f.read_text())
    c = e["coverage"]
    return f"{c.get('states', 0):,} states / {c.get('transitions', 0):,} transitions, {e['wall_s']:.0f} s"


print("| id | quick (last run) | thorough (last run) |\n|---|---|---|")
for i in range(1, 21):
    pid = f"C{i:02d}"
    print(f"| {pid} | {cell(pid, 'quick')} | {cell(pid, 'thorough')} |")
