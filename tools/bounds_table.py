#!/usr/bin/env python3
"""Prints the 'what the last runs covered' table of DESIGN section 8 from evidence/by_tier/*.json; thorough
numbers may instead be taken from the log of a `vp run` sweep (--thorough-log FILE), whose evidence files live
in the run's own snapshot."""
import json
import re
import sys
from pathlib import Path

EV = Path(__file__).resolve().parents[1] / "evidence" / "by_tier"
LOG = {}
if "--thorough-log" in sys.argv:
    text = Path(sys.argv[sys.argv.index("--thorough-log") + 1]).read_text()
    for m in re.finditer(r"\[(C\d\d)\] tier=thorough seed=\d+ states=(\d+) transitions=(\d+) .*?evaluations=(\d+) .*?violations=(\d+) known=\d+ wall=([\d.]+)s", text):
        LOG[m.group(1)] = (int(m.group(2)), int(m.group(3)), int(m.group(4)), int(m.group(5)), float(m.group(6)))


def cell(pid, tier):
    if tier == "thorough" and pid in LOG:
        s, t, e, v, w = LOG[pid]
        return f"{s:,} states / {t:,} transitions / {e:,} evaluations, {w:.0f} s"
    f = EV / f"{pid}.{tier}.json"
    if not f.exists():
        return "-"
    e = json.loads(f.read_text())
    c = e["coverage"]
    return f"{c.get('states', 0):,} states / {c.get('transitions', 0):,} transitions / {c.get('evaluations', 0):,} evaluations, {e['wall_s']:.0f} s"


print("| id | quick (last run) | thorough (last run) |\n|---|---|---|")
for i in range(1, 21):
    pid = f"C{i:02d}"
    print(f"| {pid} | {cell(pid, 'quick')} | {cell(pid, 'thorough')} |")
