#!/usr/bin/env python3
"""Evaluate a behaviour-preserving change: in a scratch worktree of /repo HEAD apply the patch,
confirm the 180 baseline tests still pass, and run the checks related to the touched files.
Any VIOLATION is a (potential) false alarm of the machinery and is printed with its signatures.

usage: eval_benign.py <PROP_ID> <dir with patch.diff> [--name NAME] [--keep]"""

import argparse
import json
import os
import re
import shutil
import subprocess
import sys
import tempfile
from pathlib import Path

VERIF = Path(__file__).resolve().parents[1]
sys.path.insert(0, str(VERIF / "tools"))
from eval_seed import passed_ids, sh  # noqa: E402

FILE_CHECKS = [
    (r"hugr/hugr/base\.py", ["C02", "C03", "C04", "C08", "C16", "C20"]),
    (r"hugr/hugr/node_port\.py", ["C16", "C04"]),
    (r"hugr/hugr/render\.py", ["C20"]),
    (r"hugr/ops\.py", ["C05", "C06", "C01", "C13"]),
    (r"hugr/tys\.py", ["C05", "C07", "C11"]),
    (r"hugr/val\.py", ["C14", "C05"]),
    (r"hugr/build/tracked_dfg\.py", ["C15", "C13"]),
    (r"hugr/build/", ["C01", "C13", "C16", "C08"]),
    (r"hugr/_serialization/", ["C05", "C02", "C17", "C10", "C09"]),
    (r"hugr/ext\.py", ["C10", "C11"]),
    (r"hugr/(envelope|package)\.py", ["C09"]),
    (r"hugr/model/", ["C12"]),
    (r"hugr/qsystem/", ["C19"]),
    (r"hugr/utils\.py", ["C18", "C04"]),
    (r"hugr/std/", ["C10", "C14", "C07"]),
    (r"scripts/|specification/schema", ["C17"]),
]


def main():
    ap = argparse.ArgumentParser()
    ap.add_argument("pid")
    ap.add_argument("dir")
    ap.add_argument("--name")
    ap.add_argument("--keep", action="store_true")
    a = ap.parse_args()
    d = Path(a.dir).resolve()
    patch = d / "patch.diff"
    files = re.findall(r"^\+\+\+ b/(.*)$", patch.read_text(), flags=re.M)
    checks = [a.pid]
    for pat, cs in FILE_CHECKS:
        if any(re.search(pat, f) for f in files):
            checks += [c for c in cs if c not in checks]
    res = {"property": a.pid, "files": files, "checks": {}}
    wt = tempfile.mkdtemp(prefix="benwt.", dir="/tmp")
    os.rmdir(wt)
    sh(f"git -C /repo worktree add -q --detach {wt} HEAD")
    try:
        base = passed_ids(wt)
        rc, out = sh(f"git -C {wt} apply {patch}")
        res["patch_applies"] = rc == 0
        if rc != 0:
            res["apply_error"] = out[-300:]
            print(json.dumps(res, indent=1))
            return 2
        mut = passed_ids(wt)
        res["tests_ok"] = base <= mut and len(base) >= 180
        for c in checks:
            env = dict(os.environ, HUGR_REPO=wt)
            rc, out = sh(f"./check {c} --tier quick", cwd=VERIF, env=env)
            sigs = [l.strip()[:260] for l in out.splitlines() if l.startswith("  ") and "(x" in l][:5]
            res["checks"][c] = {"exit": rc, "alarm": rc != 0, "signatures": sigs}
        res["alarms"] = [c for c, r in res["checks"].items() if r["alarm"]]
    finally:
        sh(f"git -C /repo worktree remove --force {wt}")
        shutil.rmtree(wt, ignore_errors=True)
    if a.keep:
        dst = VERIF / "seeded" / "benign" / (a.name or f"{a.pid}-{d.name}")
        dst.mkdir(parents=True, exist_ok=True)
        for f in ("patch.diff", "notes.md", "probe.py"):
            if (d / f).exists():
                shutil.copy(d / f, dst / f)
        (dst / "meta.json").write_text(json.dumps({"kind": "behaviour-preserving change", **res}, indent=1))
    print(json.dumps(res, indent=1))
    return 0


if __name__ == "__main__":
    sys.exit(main())
