#!/usr/bin/env python3
"""Re-runs, for every kept seeded change, the quick tier of the checks recorded as detecting it
(scratch worktree of /repo HEAD + patch, no test-suite run) and reports seeds that are no longer detected.
usage: recheck_seeds.py [-j N] [name-glob]"""
import fnmatch
import json
import os
import subprocess
import sys
import tempfile
from concurrent.futures import ThreadPoolExecutor
from pathlib import Path

VERIF = Path(__file__).resolve().parents[1]


def one(d):
    meta = json.loads((d / "meta.json").read_text())
    checks = meta.get("detected_by") or [meta["property"]]
    wt = tempfile.mkdtemp(prefix="rechk.", dir="/tmp")
    os.rmdir(wt)
    subprocess.run(f"git -C /repo worktree add -q --detach {wt} HEAD", shell=True, check=True)
    try:
        r = subprocess.run(f"git -C {wt} apply {d / 'patch.diff'}", shell=True, capture_output=True, text=True)
        if r.returncode != 0:
            return d.name, "NO-APPLY", r.stderr[-200:]
        env = dict(os.environ, HUGR_REPO=wt)
        for c in checks:
            p = subprocess.run(f"./check {c} --tier quick", shell=True, cwd=VERIF, env=env, capture_output=True, text=True)
            if p.returncode == 1 and "VIOLATION" in p.stdout:
                return d.name, "detected", c
        return d.name, "MISSED", ",".join(checks)
    finally:
        subprocess.run(f"git -C /repo worktree remove --force {wt}", shell=True)


def main():
    args = sys.argv[1:]
    j = 4
    if args[:1] == ["-j"]:
        j = int(args[1])
        args = args[2:]
    pat = args[0] if args else "*"
    dirs = [d for d in sorted((VERIF / "seeded").iterdir()) if (d / "meta.json").exists() and (d / "patch.diff").exists() and d.name != "benign" and fnmatch.fnmatch(d.name, pat)]
    bad = 0
    with ThreadPoolExecutor(j) as ex:
        for name, status, info in ex.map(one, dirs):
            print(name, status, info, flush=True)
            bad += status != "detected"
    print(f"{len(dirs)} seeds, {bad} not detected")
    return 1 if bad else 0


if __name__ == "__main__":
    sys.exit(main())
