#!/usr/bin/env python3
"""Evaluate a seeded defect produced by an independent sub-agent.

usage: eval_seed.py <PROP_ID> <seed_dir> [--name NAME] [--checks C04,C08] [--tier quick] [--keep]

Steps (all in a fresh scratch worktree of /repo HEAD, removed afterwards):
  1. demo.py passes on the unchanged tree
  2. patch applies; demo.py fails with it
  3. the baseline suite still has its 180 passes (same ids)
  4. the registered checks (default: the property's own) are run with HUGR_REPO=<scratch>
Result is printed as JSON; with --keep the seed is copied to /verif/seeded/<NAME>/ with meta.json."""

import argparse
import json
import os
import shutil
import subprocess
import sys
import tempfile
import time
from pathlib import Path

VERIF = Path(__file__).resolve().parents[1]
PY = "/venv/bin/python"


def sh(cmd, cwd=None, env=None, timeout=3600):
    p = subprocess.run(cmd, shell=True, cwd=cwd, env=env, capture_output=True, text=True, timeout=timeout)
    return p.returncode, p.stdout + p.stderr


def passed_ids(wt):
    xml = Path(wt) / "_junit.xml"
    sh(f"{PY} -m pytest -q -p no:cacheprovider --timeout=900 --continue-on-collection-errors --junitxml={xml} --ignore=_seed", cwd=wt)
    import xml.etree.ElementTree as ET

    ids = set()
    try:
        for tc in ET.parse(xml).getroot().iter("testcase"):
            if not list(tc):
                ids.add(f"{tc.get('classname')}::{tc.get('name')}")
    finally:
        xml.unlink(missing_ok=True)
    return ids


def main():
    ap = argparse.ArgumentParser()
    ap.add_argument("pid")
    ap.add_argument("seed_dir")
    ap.add_argument("--name")
    ap.add_argument("--checks")
    ap.add_argument("--tier", default="quick")
    ap.add_argument("--keep", action="store_true")
    a = ap.parse_args()
    seed = Path(a.seed_dir).resolve()
    patch, demo = seed / "patch.diff", seed / "demo.py"
    checks = (a.checks or a.pid).split(",")
    res = {"property": a.pid, "seed_dir": str(seed), "checks": {}}
    wt = tempfile.mkdtemp(prefix="seedwt.", dir="/tmp")
    os.rmdir(wt)
    rc, out = sh(f"git -C /repo worktree add -q --detach {wt} HEAD")
    assert rc == 0, out
    try:
        env = dict(os.environ, PYTHONPATH=f"{wt}/hugr-py/src", PYTHONDONTWRITEBYTECODE="1")
        rc0, o0 = sh(f"{PY} -B {demo}", cwd=wt, env=env, timeout=600)
        res["demo_passes_unchanged"] = rc0 == 0
        base_ids = passed_ids(wt)
        rc, out = sh(f"git -C {wt} apply {patch}")
        res["patch_applies"] = rc == 0
        if rc != 0:
            res["apply_error"] = out[-500:]
            print(json.dumps(res, indent=1))
            return 2
        rc1, o1 = sh(f"{PY} -B {demo}", cwd=wt, env=env, timeout=600)
        res["demo_fails_with_patch"] = rc1 != 0
        res["demo_output_tail"] = o1[-400:]
        mut_ids = passed_ids(wt)
        res["baseline_passes"] = len(base_ids)
        res["still_passing"] = len(base_ids & mut_ids)
        res["tests_ok"] = base_ids <= mut_ids and len(base_ids) >= 180
        if not res["tests_ok"]:
            res["newly_failing"] = sorted(base_ids - mut_ids)[:10]
        for c in checks:
            t0 = time.time()
            envc = dict(os.environ, HUGR_REPO=wt, VERIF_TIER=a.tier)
            rc, out = sh(f"./check {c} --tier {a.tier}", cwd=VERIF, env=envc, timeout=7200)
            viol = [l for l in out.splitlines() if l.startswith("VIOLATION")]
            sigs = [l.strip() for l in out.splitlines() if l.startswith("  ") and "(x" in l][:6]
            res["checks"][c] = {"exit": rc, "detected": rc == 1 and bool(viol), "n_violation_lines": len(viol),
                                "first_signatures": sigs, "wall_s": round(time.time() - t0, 1)}
            if rc not in (0, 1):
                res["checks"][c]["output_tail"] = out[-1500:]
        res["detected_by"] = [c for c, r in res["checks"].items() if r["detected"]]
    finally:
        sh(f"git -C /repo worktree remove --force {wt}")
        shutil.rmtree(wt, ignore_errors=True)
    if a.keep:
        name = a.name or f"{a.pid}-{seed.name}"
        dst = VERIF / "seeded" / name
        dst.mkdir(parents=True, exist_ok=True)
        for f in ("patch.diff", "demo.py", "notes.md"):
            if (seed / f).exists():
                shutil.copy(seed / f, dst / f)
        meta = {
            "property": a.pid,
            "needs_to_manifest": (seed / "notes.md").read_text()[:1500] if (seed / "notes.md").exists() else "",
            "confirmed": {k: res.get(k) for k in ("demo_passes_unchanged", "patch_applies", "demo_fails_with_patch", "tests_ok", "baseline_passes", "still_passing")},
            "what_was_run": f"tools/eval_seed.py {a.pid} <seed> --checks {','.join(checks)} --tier {a.tier} (scratch worktree of /repo HEAD, removed afterwards)",
            "checks": res["checks"],
            "detected_by": res.get("detected_by", []),
        }
        (dst / "meta.json").write_text(json.dumps(meta, indent=1))
    print(json.dumps(res, indent=1))
    return 0


if __name__ == "__main__":
    sys.exit(main())
