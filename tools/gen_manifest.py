#!/usr/bin/env python3
"""Regenerates /verif/MANIFEST.json from the table below (so the file is always schema-valid).
Run:  python3 tools/gen_manifest.py   (from /verif)"""

import json
from pathlib import Path

VERIF = Path(__file__).resolve().parents[1]

# id -> (technique, level text, level note, design ref)
E1 = "explicit-state BFS over histories of the real object vs reference model"
E2 = "exhaustive enumeration of builder-call sequences (bounded depth) judged by a reference model"
E3 = "exhaustive constructor-closure enumeration of terms vs reference semantics"
E4 = "exhaustive finite-product enumeration vs reference model"

CHECKS = {
    "C01": (
        E2 + " (R2 validator)",
        "Every builder-call prefix of 21 scenario families (dataflow with nesting/Ext wires/order edges/partially used multi-output ops, "
        "unit rows, conditionals+if/else, tail loops, CFGs with Dom wires and back edges, modules with calls / function values / "
        "polymorphic and row-polymorphic callees) up to a free-call bound is executed on fresh real builders, completed by a "
        "deterministic default continuation and the serialized HUGR is judged by an independent transcription of the reference "
        "validator's rules. Well-formedness of a program is decided by the harness' own typing context, never by the code under test. "
        "Plus the size ladders (12 regular HUGR families x every size n in a contiguous range x 2 hosts) and load(v) for every copyable "
        "value of the value grammar (built from lists and from one-shot iterators).",
        "Trusted: mc/ref/validate.py + hugrjson.py (R2, transcribed from hugr-core validate.rs / ops/validate.rs / ops.rs / spec), the "
        "harness typing context in mc/drivers/bpm.py. Bounded: call depth, nesting, row length, op alphabet (bundled std extensions).",
        "DESIGN.md section 4 (C01), section 2 (E2), Appendix A",
    ),
    "C02": (
        E2 + " composed with store-mutation histories; differential round-trip oracle",
        "Every complete builder program of a reduced plan x every single store mutation (thorough: a larger plan x single mutations, then the quick plan x pairs of mutations) - delete leaf, add "
        "attribute-rich nodes, order link, delete link, insert fragment, JSON metadata values, index reuse - is serialized, loaded and "
        "re-serialized; documents are compared as JSON values (type-strict: true/1/1.0 differ) and the observable structure through a "
        "hierarchy-only numbering. Plus every size-ladder HUGR as built and after every single store mutation. Plus the other origin: the "
        "loaded copy of every program / ladder HUGR is mutated (one mutation of each kind) and must round-trip, and the same mutation applied to "
        "the built HUGR and to its loaded copy must leave both with the same observable structure (differential, no expected values).",
        "Trusted: comparison code in mc/checks/c02.py; set-like arrays (runtime_reqs, extension sets) compared as sets.",
        "DESIGN.md section 4 (C02)",
    ),
    "C03": (
        E2 + " composed with store-mutation histories; published JSON schema + R2 port layout",
        "Same state space as C02; every emitted HUGR/package/extension document is validated against the published strict schema, R2's "
        "index rules, and the image of Hugr.links() under R2's port layout (static port after value inputs, order port after those). "
        "Plus every size-ladder HUGR as built and after every single store mutation; plus the document of the loaded copy of every program "
        "after one mutation of each kind.",
        "Trusted: jsonschema + specification/schema/hugr_schema_strict_live.json; mc/ref/hugrjson.py port layout.",
        "DESIGN.md section 4 (C03)",
    ),
    "C04": (
        E1 + " (R1 port multigraph)",
        "All histories of add_node/add_const/add_link/add_order_link/delete_link/delete_node/insert_hugr over <=3 (4) live nodes, <=3 links, "
        "ports {0,1,order} incl. links between an order port and a value port, inserted fragments incl. one with a reused index, "
        "breadth-first to depth 5 with canonical-state deduplication; after every event every public query is compared with a list-based "
        "port-multigraph model.",
        "Trusted: mc/ref/portgraph.py, mc/drivers/store.py. Bounded by node/link caps and depth; listing order within a port not compared.",
        "DESIGN.md section 4 (C04), section 2 (E1)",
    ),
    "C05": (
        E3 + " + reference wire encoders + foreign documents",
        "Every term of bounded grammars of types, params, args, values and all 21 op kinds (optional attributes set) is encoded, decoded "
        "and re-encoded; compared exactly, against an independent reference encoder of the wire format, on derived facts (R3/R5) and "
        "attribute-wise; sugar forms vs general forms; foreign documents (null-offset order edges, metadata, other encoder) through load+save, "
        "incl. every size-ladder document with its edges mapped through the reference port layout.",
        "Trusted: reference encoders in mc/drivers/terms.py / opterms.py (from the published schema), R3 table.",
        "DESIGN.md section 4 (C05), section 2 (E3)",
    ),
    "C06": (
        E3 + " (R3 signature table)",
        "Every op class over all rows (len<=2/3) of a 5-type alphabet, all tags/variants, polymorphic and row-polymorphic Call/LoadFunc "
        "with arity-changing instantiation x every port offset -1..n+1 in both directions: kind, type, signatures, num_out, nth rows.",
        "Trusted: mc/drivers/opterms.py::ref_sig (R3, from specification/hugr.md and ops/dataflow.rs, ops/controlflow.rs).",
        "DESIGN.md section 4 (C06), Appendix B",
    ),
    "C07": (
        E3 + " (R5 bound calculus)",
        "Every type of the bounded grammar, every extension type definition over params<=2(3) x explicit/from-params bounds over every index "
        "list x every fitting argument list, TypeBound.join on all sequences up to length 4, std containers over every element type.",
        "Trusted: mc/drivers/terms.py::ref_bound (20 lines).",
        "DESIGN.md section 4 (C07)",
    ),
    "C14": (
        E3 + " (R4 value typing on the serialized document)",
        "Every value of the bounded value grammar (sums/tuples/options/eithers of extension constants, arrays of sums, function values, int "
        "widths 0..6), built from lists and from one-shot iterators; the serialized document is typed by an independent reader and compared "
        "with the reported type; Const/LoadConst ports carry that type.",
        "Trusted: mc/ref/values.py (R4, from hugr-core ops/constant.rs).",
        "DESIGN.md section 4 (C14)",
    ),
    "C16": (
        E4 + " (range(n) semantics) + builder-handle census + add/delete histories",
        "Every output count n<=11 (14) x every int, slice (start/stop in [-n-2,n+2], steps) and 2-tuple; handles without count; equality/hash "
        "over handle variants; every builder call form over a row alphabet vs R3 output counts; all add_node/delete_node histories to depth 4 (6).",
        "Trusted: Python's range(n) slicing; R3 output counts.",
        "DESIGN.md section 4 (C16)",
    ),
    "C18": (
        E1 + " to fixpoint (set-of-pairs model)",
        "All reachable states of the real BiMap over a 4-letter (thorough: 6-letter, 13 327 states) key/value alphabet "
        "with falsy members are enumerated to a fixpoint; from every state every operation with every argument is "
        "executed on the implementation and compared, query by query, with a set-of-pairs model; the constructor "
        "is run on every mapping over the alphabet.",
        "Trusted: the 30-line reference model in mc/checks/c18.py; alphabet of 4-6 hashable keys incl. 0, '', ().",
        "DESIGN.md section 4 (C18), section 2 (E1)",
    ),
    "C19": (
        E4 + " (R7 write-replay model)",
        "Every shot of <=3 (4) entries over 8 tags (incl. index 10, non-ASCII) x 11 values (ints, bools, lists, non-bits) and every result of <=2 (3) shots over 10 "
        "reference shots x 4 strictness settings, compared with a write-replay model.",
        "Trusted: the R7 model in mc/checks/c19.py.",
        "DESIGN.md section 4 (C19)",
    ),
    "C08": (
        E1 + " pairs (isomorphism oracle) + builder wrappers",
        "B ranges over every distinct store state of the C04 machine up to depth 3 (4) - multi-linked ports, order links, self loops, holes, "
        "reused indices - and builder fragments; A over 3 hosts x every node as parent. The returned mapping, ops, parents, child order, "
        "metadata, out-port counts, link multiset, host and B are compared; insert_nested/_cfg/_conditional/_tail_loop from root, nested, "
        "function-body and holed receiving builders with wires; every B also through the default parent; every size-ladder HUGR as B.",
        "Trusted: dump()/comparison code in mc/checks/c08.py; B states come from the C04 machine.",
        "DESIGN.md section 4 (C08)",
    ),
    "C09": (
        E4 + " (R8 header layout)",
        "Packages over ordered selections of 3 modules (one non-ASCII, null-carrying fields) and 3 extensions x 3 formats x compression levels "
        "x bytes/str; header decoder on all 65536 (format, flags) pairs, truncations 0..9 and all 2040 single-byte magic corruptions; size "
        "ladder of payloads straddling 2^8..2^17 (thorough 2^22) bytes, highly/poorly compressible, and packages of 9..130 (700) modules.",
        "Trusted: header layout from hugr-core/src/envelope/header.rs; zstd frame magic. MODULE formats need the native module: reported skipped.",
        "DESIGN.md section 4 (C09)",
    ),
    "C10": (
        E4 + " (spec files as reference)",
        "Extensions over ordered selections of 4 type definitions, 6 operation definitions (mono, polymorphic, binary-only, scheme+binary, with "
        "foreign requirements, row-polymorphic), values, 5 versions (pre-release/build) and requirement sets: serialize/load/serialize, field by "
        "field, ownership and owner requirement; every std extension file byte-compared, loaded and re-saved; every typed helper vs the spec files.",
        "Trusted: specification/std_extensions/*.json; R2 substitution for helper signatures.",
        "DESIGN.md section 4 (C10)",
    ),
    "C11": (
        E3 + " x registry family (reference resolution by membership)",
        "150 (thorough 850) type expressions with opaque leaves nested in sums, function types (also inside sums), polymorphic bodies, type args, sequences and "
        "args of opaque types, signatures with several runtime requirements, all-empty general sums x 165 registries (each of 2 extensions absent or holding any subset of its definitions); loaded HUGRs with 1-3 "
        "opaque ops (owner/empty requirements, unknown extension, missing op, a computed-signature definition with type / sequence / number arguments; signature and type arguments searched for opaque leftovers); model export before/after; idempotence.",
        "Trusted: expected_shape() in mc/checks/c11.py. Opaque inputs carry the bound their definition computes.",
        "DESIGN.md section 4 (C11)",
    ),
    "C12": (
        E2 + " (R6 model-scope walker)",
        "Every complete module-rooted builder program of 7 module scenarios (late declarations = forward references to a declaration, nested DFGs, order edges, metadata, constants, calls incl. recursion / "
        "polymorphic / row-polymorphic callees, function values, conditionals, loops, CFGs with merges and back edges): Hugr.to_model() is walked in "
        "parallel with the HUGR; region structure, listed ports, link-name partition vs connectivity, symbols, inlined constants, order hints, "
        "metadata (type-strict); model dataclass fields vs the getattr() calls of python.rs; plus every module-hosted size-ladder HUGR.",
        "Trusted: mc/checks/c12.py (R6, from hugr-core export.rs / import.rs); str()/bytes() of model objects need the native module.",
        "DESIGN.md section 4 (C12)",
    ),
    "C13": (
        E2 + " with exhaustive single-fault injection at every reachable state",
        "From every builder-program prefix of 12 scenarios, every applicable single inconsistent call of a fault menu of 9 families (30 kinds) is executed on a "
        "fresh replay of the state and must raise the documented error, raise again when repeated, and (for the validate-first families) leave the program completable to a valid HUGR; plus every (width, untracked set, index, method) lookup of the tracked builder.",
        "Trusted: fault menu + expected-exception table in mc/checks/c13.py; fail-stop only.",
        "DESIGN.md section 4 (C13)",
    ),
    "C15": (
        E1 + " (lock-step twin builder)",
        "All call sequences of the tracked builder (track/untrack/add/extend with mixed int and wire arguments, same index twice, freed and "
        "out-of-range indices, metadata, indexed/tracked outputs) to depth 4 (5) for both track_inputs settings, in lock-step with a plain Dfg driven "
        "with explicit wires through a reference list[Wire|None]; tracked list and both HUGRs compared after every call, serialized documents at completion.",
        "Trusted: the reference list and twin in mc/checks/c15.py.",
        "DESIGN.md section 4 (C15)",
    ),
    "C17": (
        "exhaustive closure of the schema definition graphs (published vs regenerated), compared node by node",
        "The four schema files are regenerated from the models by the repository's own generator (its real strict/lax/strict/lax sequence in one "
        "subprocess) and one configuration per fresh process; every definition reachable through $ref from the roots of published and regenerated "
        "schemas is compared; version strings of the models vs the file names; thorough: additionally every history of 2..4 strict/lax rebuilds "
        "of the two root models in one process.",
        "Trusted: pydantic's schema generator as the definition of 'what the models define'; `additionalProperties: true` treated as void.",
        "DESIGN.md section 4 (C17)",
    ),
    "C20": (
        E2 + " monitor (R9 DOT reader) x configuration product",
        "Every complete builder program of the plan, as built x 7 render configurations and after one store mutation of each kind (thorough: a larger plan, then the quick plan after every single mutation), plus the loaded copy of every program as read and after insert-then-link / delete-then-add: the DOT source is "
        "parsed and node statements, port cells, cluster nesting, edge statements and value labels are compared with the HUGR's public queries; "
        "HUGR unchanged; outputs equal across configurations modulo colours and extension prefix; plus size ladders (nodes with n ports, n links on "
        "a port, n chained siblings, and the shared ladder families).",
        "Trusted: mc/ref/dot.py; the `dot` binary is never invoked.",
        "DESIGN.md section 4 (C20)",
    ),
}

ALL = [f"C{i:02d}" for i in range(1, 21)]

NOT_YET = "check not built yet in this revision of /verif (planned, see DESIGN.md section 4)"


def main():
    checks = []
    for pid in ALL:
        if pid not in CHECKS:
            continue
        tech, text, note, ref = CHECKS[pid]
        checks.append(
            {
                "property_id": pid,
                "quick_cmd": f"./check {pid} --tier quick",
                "thorough_cmd": f"./check {pid} --tier thorough",
                "evidence_file": f"/verif/evidence/{pid}.json",
                "replay_cmd_template": "./check --replay {path}",
                "engine": "mc",
                "level_claimed": {"category": "model_checking", "text": text, "design_ref": ref},
                "level_note": note,
                "technique": tech,
            }
        )
    man = {
        "version": 1,
        "setup_cmd": "bash setup.sh",
        "hooks": {
            "guard": "CQCL_HUGR_PYTHON_VERIF",
            "enable": "no instrumentation hooks are needed: every oracle observes through the public API; "
            "./check exports CQCL_HUGR_PYTHON_VERIF=1 for uniformity but /repo contains no guarded code",
            "baseline_off_cmd": "cd /repo && /venv/bin/python -m pytest -ra -q -p no:cacheprovider --timeout=900 "
            "--continue-on-collection-errors",
            "source_commits": [],
            "add_only": True,
        },
        "engines": [
            {
                "name": "mc",
                "path": "/verif/mc",
                "serves_properties": sorted(CHECKS),
                "kind_free_text": "hand-written bounded exhaustive explorers (explicit-state BFS over histories of the "
                "real objects, builder-program machine, constructor-closure term enumeration, finite products) with "
                "independent Python reference models",
            }
        ],
        "checks": checks,
        "not_applicable": [{"property_id": p, "reason": NOT_YET} for p in ALL if p not in CHECKS],
        "notes": "Code under test is imported from /repo/hugr-py/src at run time (python -B, PYTHONHASHSEED=0); "
        "HUGR_REPO=<dir> points the checks at another checkout (used only for seeded-change experiments).",
    }
    (VERIF / "MANIFEST.json").write_text(json.dumps(man, indent=1) + "\n")
    print(f"MANIFEST.json: {len(checks)} checks, {len(man['not_applicable'])} not_applicable")


if __name__ == "__main__":
    main()
