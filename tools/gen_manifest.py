#!/usr/bin/env python3
"""Regenerates /verif/MANIFEST.json from the table below (so the file is always schema-valid).
Run:  python3 tools/gen_manifest.py   (from /verif)"""

import json
from pathlib import Path

VERIF = Path(__file__).resolve().parents[1]

# id -> (technique, level text, level note, design ref)
CHECKS = {
    "C18": (
        "explicit-state BFS to fixpoint over the real BiMap vs set-of-pairs model",
        "All reachable states of the real BiMap over a 4-letter (thorough: 5-letter) key/value alphabet "
        "with falsy members are enumerated to a fixpoint; from every state every operation with every argument is "
        "executed on the implementation and compared, query by query, with a set-of-pairs model; the constructor "
        "is run on every mapping over the alphabet. Exhaustive inside the alphabet, so the right level for a "
        "history-quantified property of a tiny data structure.",
        "Trusted: the 30-line reference model in mc/checks/c18.py; alphabet of 4-5 hashable keys incl. 0, '', ().",
        "DESIGN.md section 4 (C18), section 2 (E1)",
    ),
}

ALL = [f"C{i:02d}" for i in range(1, 21)]

NOT_YET = "check not built yet in this revision of /verif (planned, see DESIGN.md section 4)"


def main():
    checks = []
    for pid in ALL:
        if pid not in CHECKS:
            continue
        tech, text, note, ref = CHECKS[pid]
        checks.append(
            {
                "property_id": pid,
                "quick_cmd": f"./check {pid} --tier quick",
                "thorough_cmd": f"./check {pid} --tier thorough",
                "evidence_file": f"/verif/evidence/{pid}.json",
                "replay_cmd_template": "./check --replay {path}",
                "engine": "mc",
                "level_claimed": {"category": "model_checking", "text": text, "design_ref": ref},
                "level_note": note,
                "technique": tech,
            }
        )
    man = {
        "version": 1,
        "setup_cmd": "bash setup.sh",
        "hooks": {
            "guard": "CQCL_HUGR_PYTHON_VERIF",
            "enable": "no instrumentation hooks are needed: every oracle observes through the public API; "
            "./check exports CQCL_HUGR_PYTHON_VERIF=1 for uniformity but /repo contains no guarded code",
            "baseline_off_cmd": "cd /repo && /venv/bin/python -m pytest -ra -q -p no:cacheprovider --timeout=900 "
            "--continue-on-collection-errors",
            "source_commits": [],
            "add_only": True,
        },
        "engines": [
            {
                "name": "mc",
                "path": "/verif/mc",
                "serves_properties": sorted(CHECKS),
                "kind_free_text": "hand-written bounded exhaustive explorers (explicit-state BFS over histories of the "
                "real objects, builder-program machine, constructor-closure term enumeration, finite products) with "
                "independent Python reference models",
            }
        ],
        "checks": checks,
        "not_applicable": [{"property_id": p, "reason": NOT_YET} for p in ALL if p not in CHECKS],
        "notes": "Code under test is imported from /repo/hugr-py/src at run time (python -B, PYTHONHASHSEED=0); "
        "HUGR_REPO=<dir> points the checks at another checkout (used only for seeded-change experiments).",
    }
    (VERIF / "MANIFEST.json").write_text(json.dumps(man, indent=1) + "\n")
    print(f"MANIFEST.json: {len(checks)} checks, {len(man['not_applicable'])} not_applicable")


if __name__ == "__main__":
    main()
