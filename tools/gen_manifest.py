#!/usr/bin/env python3
"""Regenerates /verif/MANIFEST.json from the table below (so the file is always schema-valid).
Run:  python3 tools/gen_manifest.py   (from /verif)"""

import json
from pathlib import Path

VERIF = Path(__file__).resolve().parents[1]

# id -> (technique, level text, level note, design ref)
E1 = "explicit-state BFS over histories of the real object vs reference model"
E2 = "exhaustive enumeration of builder-call sequences (bounded depth) judged by a reference model"
E3 = "exhaustive constructor-closure enumeration of terms vs reference semantics"
E4 = "exhaustive finite-product enumeration vs reference model"

CHECKS = {
    "C01": (
        E2 + " (R2 validator)",
        "Every builder-call prefix of 8 scenario families (dataflow with nesting/Ext wires/order edges/partially used multi-output ops, "
        "unit rows, conditionals+if/else, tail loops, CFGs with Dom wires and back edges, modules with calls / function values / "
        "polymorphic and row-polymorphic callees) up to a free-call bound is executed on fresh real builders, completed by a "
        "deterministic default continuation and the serialized HUGR is judged by an independent transcription of the reference "
        "validator's rules. Well-formedness of a program is decided by the harness' own typing context, never by the code under test.",
        "Trusted: mc/ref/validate.py + hugrjson.py (R2, transcribed from hugr-core validate.rs / ops/validate.rs / ops.rs / spec), the "
        "harness typing context in mc/drivers/bpm.py. Bounded: call depth, nesting, row length, op alphabet (bundled std extensions).",
        "DESIGN.md section 4 (C01), section 2 (E2), Appendix A",
    ),
    "C02": (
        E2 + " composed with store-mutation histories; differential round-trip oracle",
        "Every complete builder program of a reduced plan x every store-mutation history up to depth 1 (thorough 2) - delete leaf, add "
        "attribute-rich nodes, order link, delete link, insert fragment, JSON metadata values, index reuse - is serialized, loaded and "
        "re-serialized; documents are compared as JSON values and the observable structure through a hierarchy-only numbering.",
        "Trusted: comparison code in mc/checks/c02.py; set-like arrays (runtime_reqs, extension sets) compared as sets.",
        "DESIGN.md section 4 (C02)",
    ),
    "C03": (
        E2 + " composed with store-mutation histories; published JSON schema + R2 port layout",
        "Same state space as C02; every emitted HUGR/package/extension document is validated against the published strict schema, R2's "
        "index rules, and the image of Hugr.links() under R2's port layout (static port after value inputs, order port after those).",
        "Trusted: jsonschema + specification/schema/hugr_schema_strict_live.json; mc/ref/hugrjson.py port layout.",
        "DESIGN.md section 4 (C03)",
    ),
    "C04": (
        E1 + " (R1 port multigraph)",
        "All histories of add_node/add_const/add_link/add_order_link/delete_link/delete_node/insert_hugr over <=3 (4) live nodes, <=3 links, "
        "ports {0,1,order}, breadth-first to depth 5 with canonical-state deduplication; after every event every public query is compared "
        "with a list-based port-multigraph model.",
        "Trusted: mc/ref/portgraph.py, mc/drivers/store.py. Bounded by node/link caps and depth; listing order within a port not compared.",
        "DESIGN.md section 4 (C04), section 2 (E1)",
    ),
    "C05": (
        E3 + " + reference wire encoders + foreign documents",
        "Every term of bounded grammars of types, params, args, values and all 21 op kinds (optional attributes set) is encoded, decoded "
        "and re-encoded; compared exactly, against an independent reference encoder of the wire format, on derived facts (R3/R5) and "
        "attribute-wise; sugar forms vs general forms; foreign documents (null-offset order edges, metadata, other encoder) through load+save.",
        "Trusted: reference encoders in mc/drivers/terms.py / opterms.py (from the published schema), R3 table.",
        "DESIGN.md section 4 (C05), section 2 (E3)",
    ),
    "C06": (
        E3 + " (R3 signature table)",
        "Every op class over all rows (len<=2/3) of a 5-type alphabet, all tags/variants, polymorphic and row-polymorphic Call/LoadFunc "
        "with arity-changing instantiation x every port offset -1..n+1 in both directions: kind, type, signatures, num_out, nth rows.",
        "Trusted: mc/drivers/opterms.py::ref_sig (R3, from specification/hugr.md and ops/dataflow.rs, ops/controlflow.rs).",
        "DESIGN.md section 4 (C06), Appendix B",
    ),
    "C07": (
        E3 + " (R5 bound calculus)",
        "Every type of the bounded grammar, every extension type definition over params<=2(3) x explicit/from-params bounds over every index "
        "list x every fitting argument list, TypeBound.join on all sequences up to length 4, std containers over every element type.",
        "Trusted: mc/drivers/terms.py::ref_bound (20 lines).",
        "DESIGN.md section 4 (C07)",
    ),
    "C14": (
        E3 + " (R4 value typing on the serialized document)",
        "Every value of the bounded value grammar (sums/tuples/options/eithers of extension constants, arrays of sums, function values, int "
        "widths 0..6), built from lists and from one-shot iterators; the serialized document is typed by an independent reader and compared "
        "with the reported type; Const/LoadConst ports carry that type.",
        "Trusted: mc/ref/values.py (R4, from hugr-core ops/constant.rs).",
        "DESIGN.md section 4 (C14)",
    ),
    "C16": (
        E4 + " (range(n) semantics) + builder-handle census + add/delete histories",
        "Every output count n<=6 (10) x every int, slice (start/stop in [-n-2,n+2], steps) and 2-tuple; handles without count; equality/hash "
        "over handle variants; every builder call form over a row alphabet vs R3 output counts; all add_node/delete_node histories to depth 4 (5).",
        "Trusted: Python's range(n) slicing; R3 output counts.",
        "DESIGN.md section 4 (C16)",
    ),
    "C18": (
        E1 + " to fixpoint (set-of-pairs model)",
        "All reachable states of the real BiMap over a 4-letter (thorough: 5-letter) key/value alphabet "
        "with falsy members are enumerated to a fixpoint; from every state every operation with every argument is "
        "executed on the implementation and compared, query by query, with a set-of-pairs model; the constructor "
        "is run on every mapping over the alphabet.",
        "Trusted: the 30-line reference model in mc/checks/c18.py; alphabet of 4-5 hashable keys incl. 0, '', ().",
        "DESIGN.md section 4 (C18), section 2 (E1)",
    ),
    "C19": (
        E4 + " (R7 write-replay model)",
        "Every shot of <=3 (4) entries over 5 tags x 11 values (ints, bools, lists, non-bits) and every result of <=2 (3) shots over 8 "
        "reference shots x 4 strictness settings, compared with a write-replay model.",
        "Trusted: the R7 model in mc/checks/c19.py.",
        "DESIGN.md section 4 (C19)",
    ),
}

ALL = [f"C{i:02d}" for i in range(1, 21)]

NOT_YET = "check not built yet in this revision of /verif (planned, see DESIGN.md section 4)"


def main():
    checks = []
    for pid in ALL:
        if pid not in CHECKS:
            continue
        tech, text, note, ref = CHECKS[pid]
        checks.append(
            {
                "property_id": pid,
                "quick_cmd": f"./check {pid} --tier quick",
                "thorough_cmd": f"./check {pid} --tier thorough",
                "evidence_file": f"/verif/evidence/{pid}.json",
                "replay_cmd_template": "./check --replay {path}",
                "engine": "mc",
                "level_claimed": {"category": "model_checking", "text": text, "design_ref": ref},
                "level_note": note,
                "technique": tech,
            }
        )
    man = {
        "version": 1,
        "setup_cmd": "bash setup.sh",
        "hooks": {
            "guard": "CQCL_HUGR_PYTHON_VERIF",
            "enable": "no instrumentation hooks are needed: every oracle observes through the public API; "
            "./check exports CQCL_HUGR_PYTHON_VERIF=1 for uniformity but /repo contains no guarded code",
            "baseline_off_cmd": "cd /repo && /venv/bin/python -m pytest -ra -q -p no:cacheprovider --timeout=900 "
            "--continue-on-collection-errors",
            "source_commits": [],
            "add_only": True,
        },
        "engines": [
            {
                "name": "mc",
                "path": "/verif/mc",
                "serves_properties": sorted(CHECKS),
                "kind_free_text": "hand-written bounded exhaustive explorers (explicit-state BFS over histories of the "
                "real objects, builder-program machine, constructor-closure term enumeration, finite products) with "
                "independent Python reference models",
            }
        ],
        "checks": checks,
        "not_applicable": [{"property_id": p, "reason": NOT_YET} for p in ALL if p not in CHECKS],
        "notes": "Code under test is imported from /repo/hugr-py/src at run time (python -B, PYTHONHASHSEED=0); "
        "HUGR_REPO=<dir> points the checks at another checkout (used only for seeded-change experiments).",
    }
    (VERIF / "MANIFEST.json").write_text(json.dumps(man, indent=1) + "\n")
    print(f"MANIFEST.json: {len(checks)} checks, {len(man['not_applicable'])} not_applicable")


if __name__ == "__main__":
    main()
