#!/usr/bin/env python3
"""Prints the seeded-change table (markdown) from /verif/seeded/*/meta.json."""
import json
from pathlib import Path

rows = []
for d in sorted(Path(__file__).resolve().parents[1].joinpath("seeded").iterdir()):
    m = d / "meta.json"
    if not m.exists():
        continue
    j = json.loads(m.read_text())
    sig = ""
    for c, r in j.get("checks", {}).items():
        if r.get("detected") and r.get("first_signatures"):
            sig = r["first_signatures"][0].split(" (x")[0][:70]
            break
    conf = j.get("confirmed", {})
    ok = all(conf.get(k) for k in ("demo_passes_unchanged", "patch_applies", "demo_fails_with_patch", "tests_ok"))
    rows.append(f"| {d.name} | {j['property']} | {'yes' if ok else 'see meta'} | {', '.join(j.get('detected_by') or []) or 'MISSED'} | `{sig}` |")
print("| seed | property | re-verified | detected by | first signature |\n|---|---|---|---|---|")
print("\n".join(rows))
