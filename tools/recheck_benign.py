#!/usr/bin/env python3
"""Re-runs, for every kept behaviour-preserving change (seeded/benign/*), the quick tier of the checks recorded in
its meta.json on a scratch worktree of /repo HEAD + patch (3-way apply: the patches were written against an older
HEAD) and reports every alarm.  usage: recheck_benign.py [-j N] [name-glob]"""
import fnmatch
import json
import os
import subprocess
import sys
import tempfile
from concurrent.futures import ThreadPoolExecutor
from pathlib import Path

VERIF = Path(__file__).resolve().parents[1]


def one(d):
    meta = json.loads((d / "meta.json").read_text())
    checks = os.environ["BENIGN_CHECKS"].split(",") if os.environ.get("BENIGN_CHECKS") else list(meta.get("checks", {}))
    wt = tempfile.mkdtemp(prefix="rebn.", dir="/tmp")
    os.rmdir(wt)
    subprocess.run(f"git -C /repo worktree add -q --detach {wt} HEAD", shell=True, check=True)
    try:
        r = subprocess.run(f"git -C {wt} apply --3way {d / 'patch.diff'}", shell=True, capture_output=True, text=True)
        if r.returncode != 0 or "<<<<<<<" in subprocess.run(f"git -C {wt} diff", shell=True, capture_output=True, text=True).stdout:
            return d.name, "NO-APPLY", (r.stderr or "conflict")[-160:]
        env = dict(os.environ, HUGR_REPO=wt)
        alarms = []
        for c in checks:
            p = subprocess.run(f"./check {c} --tier quick", shell=True, cwd=VERIF, env=env, capture_output=True, text=True)
            if p.returncode != 0:
                sig = [l.strip()[:200] for l in p.stdout.splitlines() if l.startswith("  ") and "(x" in l][:2]
                alarms.append((c, sig))
        return d.name, "ALARM" if alarms else "silent", alarms or checks
    finally:
        subprocess.run(f"git -C /repo worktree remove --force {wt}", shell=True)


def main():
    args = sys.argv[1:]
    j = 4
    if args[:1] == ["-j"]:
        j = int(args[1])
        args = args[2:]
    pat = args[0] if args else "*"
    dirs = [d for d in sorted((VERIF / "seeded" / "benign").iterdir()) if (d / "meta.json").exists() and fnmatch.fnmatch(d.name, pat)]
    bad = 0
    with ThreadPoolExecutor(j) as ex:
        for name, status, info in ex.map(one, dirs):
            print(name, status, info, flush=True)
            bad += status == "ALARM"
    print(f"{len(dirs)} benign changes, {bad} alarms")
    return 1 if bad else 0


if __name__ == "__main__":
    sys.exit(main())
