#!/bin/bash
# usage: [TAG=b2] eval_benign_wave.sh <ID>...   evaluates /tmp/seed/<ID>/_seed/<k>, keeps them as seeded/benign/<ID>-<TAG>-<k>
tag=${TAG:-b}
for id in "$@"; do
  for d in /tmp/seed/$id/_seed/[0-9]*; do
    [ -f $d/patch.diff ] || continue
    k=$(basename $d)
    name=$id-$tag-$k
    /venv/bin/python /verif/tools/eval_benign.py $id $d --name $name --keep 2>&1 | NAME=$name /venv/bin/python -c "
import json, os, sys
name = os.environ['NAME']
try:
    r = json.load(sys.stdin)
except Exception as e:
    print(name, 'EVAL-ERROR', e); sys.exit()
print(name, 'tests_ok' if r.get('tests_ok') else 'TESTS-BROKEN' if r.get('patch_applies') else 'NO-APPLY', 'checks', list(r.get('checks', {})), 'ALARMS' if r.get('alarms') else 'silent', r.get('alarms'), [s[:200] for c in r.get('alarms', []) for s in r['checks'][c]['signatures'][:2]])"
  done
done
