#!/bin/bash
# usage: eval_benign_wave.sh <ID>...
for id in "$@"; do
  for d in /tmp/seed/$id/_seed/[0-9]*; do
    [ -f $d/patch.diff ] || continue
    k=$(basename $d)
    /venv/bin/python /verif/tools/eval_benign.py $id $d --name $id-b-$k --keep 2>&1 | /venv/bin/python -c "
import json,sys
try:
    r=json.load(sys.stdin)
except Exception as e:
    print('$id-b-$k EVAL-ERROR', e); sys.exit()
print('$id-b-$k', 'tests_ok' if r.get('tests_ok') else 'TESTS-BROKEN' if r.get('patch_applies') else 'NO-APPLY', 'checks', list(r.get('checks',{})), 'ALARMS' if r.get('alarms') else 'silent', r.get('alarms'), [s[:200] for c in r.get('alarms',[]) for s in r['checks'][c]['signatures'][:2]])"
  done
done
