#!/bin/bash
# usage: with_mutant.sh <patch.diff> <cmd...>   runs cmd with HUGR_REPO pointing at a scratch worktree of /repo
# HEAD with the patch applied; also runs the baseline suite there (prints the pytest summary line). Cleans up.
set -u
PATCH="$(realpath "$1")"; shift
WT="$(mktemp -d /tmp/mutwt.XXXXXX)"
git -C /repo worktree add -q --detach "$WT" HEAD || exit 2
trap 'git -C /repo worktree remove --force "$WT" >/dev/null 2>&1; rm -rf "$WT"' EXIT
if ! git -C "$WT" apply "$PATCH"; then echo "PATCH DOES NOT APPLY"; exit 3; fi
if [ "${SKIP_TESTS:-0}" != "1" ]; then
  echo -n "baseline-in-mutant: "; (cd "$WT" && /venv/bin/python -m pytest -q -p no:cacheprovider --timeout=900 --continue-on-collection-errors 2>&1 | tail -1)
fi
HUGR_REPO="$WT" "$@"
