#!/usr/bin/env python3
"""For every "fix:" commit in /repo: re-introduce the defect in a scratch worktree (reverse-apply
the commit's diff on top of HEAD) and confirm that the check(s) that found it report a violation
again.  Writes /verif/seeded/fix_regressions.json.  Scratch worktrees are removed afterwards."""

import json
import os
import shutil
import subprocess
import sys
import tempfile
from pathlib import Path

VERIF = Path(__file__).resolve().parents[1]

# commit subject prefix -> (checks, extra commits that must be reverted together (later fixes touching the same lines))
MAP = [
    ("Hugr.delete_link / delete_node", ["C04"], []),
    ("Call takes its output count", ["C06", "C16"], []),
    ("QsysShot.to_register_bits replays", ["C19"], []),
    ("boolean shot results", ["C19"], []),
    ("strict_names rejects", ["C19"], []),
    ("LoadFunc.num_out is 1", ["C06"], []),
    ("Call, LoadConst and LoadFunc report OrderKind", ["C06"], []),
    ("decoding a FuncDefn keeps", ["C05"], []),
    ("decoding a DataflowBlock keeps", ["C05"], []),
    ("decoding an extension operation keeps", ["C05"], []),
    ("Hugr serialization emits node metadata", ["C05", "C02"], ["serialization keeps the child order", "serialization renumbers parents"]),
    ("state-order edges are serialized at the operation's order port", ["C03", "C01"], ["edges without a port offset"]),
    ("edges without a port offset", ["C05", "C02"], []),
    ("serialization renumbers parents", ["C03", "C02"], ["serialization keeps the child order"]),
    ("insert_hugr walks the hierarchy", ["C08"], []),
    ("serialization keeps the child order", ["C02"], []),
    ("qualify_op_name only prepends", ["C20"], []),
    ("model export lists exactly the value ports", ["C12"], []),
    ("exported calls and function loads refer", ["C12"], []),
    ("dataflow regions carry their order hints", ["C12"], []),
    ("the source of an exported control flow region", ["C12"], []),
    ("TrackedDfg.add attaches the metadata", ["C15"], []),
    ("resolving an opaque type also resolves", ["C11"], []),
    ("an opaque type is exported to the model under", ["C11"], []),
    ("an extension operation serializes with its definition's description", ["C11"], []),
    ("add_node and add_link refuse a deleted node", ["C04"], []),
    ("a function-valued constant is exported as the dataflow region", ["C12"], []),
    ("exported dataflow regions list one source / target per port", ["C12"], []),
]


def sh(cmd, cwd=None, env=None):
    p = subprocess.run(cmd, shell=True, cwd=cwd, env=env, capture_output=True, text=True)
    return p.returncode, p.stdout + p.stderr


def main():
    rc, log = sh("git -C /repo log --format='%h %s'")
    commits = {}
    for line in log.splitlines():
        h, subj = line.split(" ", 1)
        if subj.startswith("fix:"):
            commits[subj[4:].strip()] = h
    report = []
    only = sys.argv[1:] or None
    for key, checks, extra in MAP:
        subj = next((s for s in commits if s.startswith(key)), None)
        if subj is None:
            report.append({"fix": key, "error": "commit not found"})
            continue
        if only and not any(o in key for o in only):
            continue
        h = commits[subj]
        wt = tempfile.mkdtemp(prefix="fixwt.", dir="/tmp")
        os.rmdir(wt)
        sh(f"git -C /repo worktree add -q --detach {wt} HEAD")
        entry = {"fix": h, "subject": subj, "checks": {}}
        try:
            to_revert = [next(commits[s] for s in commits if s.startswith(e)) for e in extra] + [h]
            ok = True
            for c in to_revert:
                rc, out = sh(f"git -C {wt} show {c} -- hugr-py/src | git -C {wt} apply -R --3way 2>&1 || git -C {wt} show {c} -- hugr-py/src | git -C {wt} apply -R")
                rc2, st = sh(f"git -C {wt} diff HEAD --stat")
                if not st.strip():
                    ok = False
                    entry["error"] = f"could not reverse-apply {c}: {out[-200:]}"
                    break
            entry["reverted_together"] = to_revert
            if ok:
                for c in checks:
                    env = dict(os.environ, HUGR_REPO=wt)
                    rc, out = sh(f"./check {c} --tier quick", cwd=VERIF, env=env)
                    sigs = [l.strip()[:160] for l in out.splitlines() if l.startswith("  ") and "(x" in l][:3]
                    entry["checks"][c] = {"exit": rc, "detected": rc == 1, "signatures": sigs}
        finally:
            sh(f"git -C /repo worktree remove --force {wt}")
            shutil.rmtree(wt, ignore_errors=True)
        print(json.dumps(entry)[:600], flush=True)
        report.append(entry)
    out = VERIF / "seeded" / "fix_regressions.json"
    if not only:
        out.write_text(json.dumps(report, indent=1))
    elif out.exists():  # partial run: replace / append the entries that were re-run
        old = [e for e in json.loads(out.read_text()) if e.get("subject") not in {r.get("subject") for r in report}]
        out.write_text(json.dumps(old + report, indent=1))


if __name__ == "__main__":
    main()
