#!/bin/bash
# usage: eval_wave.sh <tag> <ID>...   evaluates /tmp/seed/<ID>/_seed/<k> for all k, keeps them as seeded/<ID>-<tag>-<k>
tag=$1; shift
for id in "$@"; do
  for d in /tmp/seed/$id/_seed/[0-9]*; do
    [ -f $d/patch.diff ] || continue
    k=$(basename $d)
    /venv/bin/python /verif/tools/eval_seed.py $id $d --name $id-$tag-$k --keep ${CHECKS:+--checks $CHECKS} 2>&1 | /venv/bin/python -c "
import json,sys
try:
    r=json.load(sys.stdin)
except Exception as e:
    print('$id-$tag-$k', 'EVAL-ERROR', e); sys.exit()
ok=all(r.get(k) for k in ('demo_passes_unchanged','patch_applies','demo_fails_with_patch','tests_ok'))
print('$id-$tag-$k', 'valid' if ok else {k:r.get(k) for k in ('demo_passes_unchanged','patch_applies','demo_fails_with_patch','tests_ok')}, 'DETECTED' if r.get('detected_by') else 'MISSED', r.get('detected_by'), [s[:150] for c in r.get('checks',{}).values() for s in c.get('first_signatures',[])[:1]])"
  done
done
