#!/bin/bash
# Offline setup: vendors jsonschema (pure wheels + cp312 rpds) for /venv's python into /verif/.pydeps.
set -e
cd "$(dirname "$0")"
if [ ! -d .pydeps/jsonschema ]; then
  /venv/bin/pip install --quiet --no-index --find-links /opt/veriftools/wheels --target .pydeps jsonschema
fi
/venv/bin/python -c "import sys; sys.path.insert(0,'.pydeps'); import jsonschema; print('jsonschema', jsonschema.__version__)"
